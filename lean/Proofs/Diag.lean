import Model.Diag
import Proofs.Browser

namespace Diag
open Browser (Val Index idxAdd idxKey idxGet valGet mem_idxGet_idxAdd)

theorem clsGet_clsAppend (c : Classify) (k k' : Nat) (x : NF) :
    clsGet (clsAppend c k x) k' = if k = k' then clsGet c k' ++ [x] else clsGet c k' := by
  induction c with
  | nil =>
    by_cases h : k = k' <;> simp [clsAppend, clsGet, h]
  | cons hd tl ih =>
    obtain ⟨w, l⟩ := hd
    simp only [clsAppend]
    by_cases hw : w = k
    · subst hw
      by_cases h : w = k' <;> simp [clsGet, h]
    · simp only [hw, if_false, clsGet]
      by_cases h2 : w = k'
      · subst h2
        have : ¬ k = w := fun e => hw e.symm
        simp [this]
      · simp [h2, ih]

theorem clsGet_foldl {α : Type} (l : List α) (key : α → Nat) (val : α → NF) (c0 : Classify) (s : Nat) :
    clsGet (l.foldl (fun c x => clsAppend c (key x) (val x)) c0) s =
      clsGet c0 s ++ (l.filter (fun x => key x = s)).map val := by
  induction l generalizing c0 with
  | nil => simp
  | cons a l ih =>
    simp only [List.foldl_cons]
    rw [ih, clsGet_clsAppend]
    by_cases h : key a = s <;> simp [h, List.filter_cons]

def keys (c : Classify) : List Nat := c.map (·.1)

theorem keys_clsAppend (c : Classify) (k : Nat) (x : NF) :
    keys (clsAppend c k x) = if k ∈ keys c then keys c else keys c ++ [k] := by
  induction c with
  | nil => simp [clsAppend, keys]
  | cons hd tl ih =>
    obtain ⟨w, l⟩ := hd
    simp only [clsAppend]
    by_cases hw : w = k
    · subst hw; simp [keys]
    · have hne : ¬ k = w := fun e => hw e.symm
      simp only [hw, if_false]
      simp only [keys, List.map_cons, List.mem_cons, hne, false_or] at ih ⊢
      rw [ih]
      split <;> simp [*]

theorem clsHas_iff (c : Classify) (k : Nat) : clsHas c k = true ↔ k ∈ keys c := by
  simp only [clsHas, keys, List.any_eq_true, List.mem_map, beq_iff_eq]

/-- keys of a classification after a fold: every key seen, each once, in order of first appearance. -/
theorem keys_foldl {α : Type} (l : List α) (key : α → Nat) (val : α → NF) (c0 : Classify) (h0 : (keys c0).Nodup) :
    (keys (l.foldl (fun c x => clsAppend c (key x) (val x)) c0)).Nodup ∧
    ∀ k, k ∈ keys (l.foldl (fun c x => clsAppend c (key x) (val x)) c0) ↔ k ∈ keys c0 ∨ ∃ x ∈ l, key x = k := by
  induction l generalizing c0 with
  | nil => simp [h0]
  | cons a l ih =>
    simp only [List.foldl_cons]
    have hk := keys_clsAppend c0 (key a) (val a)
    have hnd : (keys (clsAppend c0 (key a) (val a))).Nodup := by
      rw [hk]
      split
      · exact h0
      · rename_i hn
        exact List.nodup_append.mpr ⟨h0, by simp, by
          intro x hx y hy
          simp only [List.mem_singleton] at hy
          subst hy
          intro e; subst e; exact hn hx⟩
    obtain ⟨h1, h2⟩ := ih _ hnd
    refine ⟨h1, ?_⟩
    intro k
    rw [h2, hk]
    constructor
    · rintro (h | ⟨x, hx, e⟩)
      · split at h
        · exact Or.inl h
        · rcases List.mem_append.mp h with h | h
          · exact Or.inl h
          · simp only [List.mem_singleton] at h
            exact Or.inr ⟨a, by simp, h.symm⟩
      · exact Or.inr ⟨x, by simp [hx], e⟩
    · rintro (h | ⟨x, hx, e⟩)
      · left
        split
        · exact h
        · exact List.mem_append.mpr (Or.inl h)
      · rcases List.mem_cons.mp hx with rfl | hx
        · left
          split
          · rename_i hm; rw [← e]; exact hm
          · rw [← e]; simp
        · exact Or.inr ⟨x, hx, e⟩

/-- the verdict rule "`good` is a key and it is the only key" ⇔ non-empty and every event is `good`. -/
theorem only_key_iff {α : Type} (l : List α) (key : α → Nat) (val : α → NF) (good : Nat) :
    (clsHas (l.foldl (fun c x => clsAppend c (key x) (val x)) []) good &&
      (l.foldl (fun c x => clsAppend c (key x) (val x)) []).length == 1) = true ↔
    l ≠ [] ∧ ∀ x ∈ l, key x = good := by
  obtain ⟨hnd, hmem⟩ := keys_foldl l key val [] (by simp [keys])
  generalize hc : l.foldl (fun c x => clsAppend c (key x) (val x)) [] = c at hnd hmem
  have hlen : c.length = (keys c).length := by simp [keys]
  simp only [Bool.and_eq_true, beq_iff_eq, clsHas_iff, hlen]
  constructor
  · rintro ⟨hg, h1⟩
    have hk : keys c = [good] := by
      match hkc : keys c, h1 with
      | [k], _ =>
        rw [hkc] at hg
        simp only [List.mem_singleton] at hg
        rw [hg]
    constructor
    · intro e
      subst e
      have := (hmem good).mp hg
      simp [keys] at this
    · intro x hx
      have : key x ∈ keys c := (hmem (key x)).mpr (Or.inr ⟨x, hx, rfl⟩)
      rw [hk] at this
      simpa using this
  · rintro ⟨hne, hall⟩
    have hsub : ∀ k ∈ keys c, k = good := by
      intro k hk
      rcases (hmem k).mp hk with h | ⟨x, hx, e⟩
      · simp [keys] at h
      · rw [← e]; exact hall x hx
    have hg : good ∈ keys c := by
      cases l with
      | nil => exact absurd rfl hne
      | cons a t => exact (hmem good).mpr (Or.inr ⟨a, by simp, hall a (by simp)⟩)
    refine ⟨hg, ?_⟩
    match hkc : keys c with
    | [] => rw [hkc] at hg; cases hg
    | [k] => rfl
    | k1 :: k2 :: r =>
      rw [hkc] at hnd hsub
      have e1 := hsub k1 (by simp)
      have e2 := hsub k2 (by simp)
      subst e1; subst e2
      simp at hnd

/-! ### by labels -/

theorem mem_idxGet_indexDict (d : LDict) (idx : Index) (p : Nat) (k : String) (v : Val) (p' : Nat) :
    p' ∈ idxGet (indexDict idx p d) k v ↔ (p' = p ∧ (k, v) ∈ d) ∨ p' ∈ idxGet idx k v := by
  unfold indexDict
  induction d generalizing idx with
  | nil => simp
  | cons hd tl ih =>
    obtain ⟨k0, v0⟩ := hd
    simp only [List.foldl_cons]
    rw [ih, mem_idxGet_idxAdd]
    simp only [List.mem_cons, Prod.mk.injEq]
    constructor
    · rintro (⟨h1, h3⟩ | ⟨h1, h2, h3⟩ | h)
      · exact Or.inl ⟨h1, Or.inr h3⟩
      · subst h1; subst h2
        exact Or.inl ⟨h3.symm, Or.inl ⟨rfl, rfl⟩⟩
      · exact Or.inr h
    · rintro (⟨h1, (⟨e1, e2⟩ | h3)⟩ | h)
      · exact Or.inr (Or.inl ⟨e1.symm, e2.symm, h1.symm⟩)
      · exact Or.inl ⟨h1, h3⟩
      · exact Or.inr (Or.inr h)

theorem mem_idxGet_buildIndexFrom (lod : List LDict) (idx : Index) (p : Nat) (k : String) (v : Val) (p' : Nat) :
    p' ∈ idxGet (buildIndexFrom idx p lod) k v ↔
      (∃ i d, lod[i]? = some d ∧ p' = p + i ∧ (k, v) ∈ d) ∨ p' ∈ idxGet idx k v := by
  induction lod generalizing idx p with
  | nil => simp [buildIndexFrom]
  | cons hd tl ih =>
    simp only [buildIndexFrom]
    rw [ih, mem_idxGet_indexDict]
    constructor
    · rintro (⟨i, d, h1, h2, h4⟩ | ⟨h1, h3⟩ | h)
      · exact Or.inl ⟨i + 1, d, by simpa using h1, by omega, h4⟩
      · exact Or.inl ⟨0, hd, by simp, by omega, h3⟩
      · exact Or.inr h
    · rintro (⟨i, d, h1, h2, h4⟩ | h)
      · cases i with
        | zero =>
          simp only [List.getElem?_cons_zero, Option.some.injEq] at h1
          subst h1
          exact Or.inr (Or.inl ⟨by omega, h4⟩)
        | succ j => exact Or.inl ⟨j, d, by simpa using h1, by omega, h4⟩
      · exact Or.inr (Or.inr h)

/-- every id stored anywhere in the index satisfies `P` -/
def IdsSat (idx : Index) (P : Nat → Prop) : Prop :=
  ∀ k vs, (k, vs) ∈ idx → ∀ v ps, (v, ps) ∈ vs → ∀ p ∈ ps, P p

theorem idxKey_mem {idx : Index} {k : String} {vs} (h : idxKey idx k = some vs) : (k, vs) ∈ idx := by
  induction idx with
  | nil => simp [idxKey] at h
  | cons hd tl ih =>
    obtain ⟨w, ws⟩ := hd
    simp only [idxKey] at h
    by_cases hw : w = k
    · subst hw; simp only [if_true, Option.some.injEq] at h; subst h; simp
    · simp only [hw, if_false] at h
      exact List.mem_cons_of_mem _ (ih h)

theorem valGet_of_mem_nodup : ∀ (vs : List (Val × List Nat)) (v : Val) (ps : List Nat),
    (v, ps) ∈ vs → ∃ ps', valGet vs v = some ps' := by
  intro vs
  induction vs with
  | nil => intro v ps h; cases h
  | cons hd tl ih =>
    intro v ps h
    obtain ⟨w, ws⟩ := hd
    simp only [valGet]
    by_cases hw : w = v
    · exact ⟨ws, by simp [hw]⟩
    · simp only [hw, if_false]
      rcases List.mem_cons.mp h with e | h
      · cases e; exact absurd rfl hw
      · exact ih v ps h

theorem idsSat_keepOnly (idx : Index) (ids : List Nat) (P : Nat → Prop) (h : IdsSat idx P) :
    IdsSat (keepOnly idx ids) (fun p => P p ∧ p ∈ ids) := by
  unfold keepOnly
  split
  · intro k vs hk; cases hk
  · intro k vs hk v ps hv p hp
    simp only [List.mem_filterMap] at hk
    obtain ⟨⟨k0, vs0⟩, hin, hsome⟩ := hk
    simp only at hsome
    split at hsome
    · cases hsome
    · simp only [Option.some.injEq, Prod.mk.injEq] at hsome
      obtain ⟨rfl, rfl⟩ := hsome
      simp only [List.mem_filterMap] at hv
      obtain ⟨⟨v0, ps0⟩, hin2, hs2⟩ := hv
      simp only at hs2
      split at hs2
      · cases hs2
      · simp only [Option.some.injEq, Prod.mk.injEq] at hs2
        obtain ⟨rfl, rfl⟩ := hs2
        have hp' := List.mem_filter.mp hp
        exact ⟨h k0 vs0 hin v0 ps0 hin2 p hp'.1, by simpa using hp'.2⟩

theorem idsSat_mono {idx : Index} {P Q : Nat → Prop} (h : IdsSat idx P) (hpq : ∀ p, P p → Q p) : IdsSat idx Q :=
  fun k vs hk v ps hv p hp => hpq p (h k vs hk v ps hv p hp)

/-- all rows produced by the recursive loop come from id sets satisfying `P` -/
theorem rloop_rows_sat (rok rko : List Nat) (P : Nat → Prop) :
    ∀ (labels : List String) (idx : Index) (plab : List Val), IdsSat idx P →
      ∀ r ∈ rloop rok rko labels idx plab,
        (∀ p ∈ r.ids, P p) ∧ r.total = r.ids.length ∧
        r.ok = (r.ids.filter (· ∈ rok)).length ∧ r.ko = (r.ids.filter (· ∈ rko)).length := by
  intro labels
  induction labels with
  | nil => intro idx plab _ r hr; simp [rloop] at hr
  | cons l rest ih =>
    intro idx plab hsat r hr
    cases rest with
    | nil =>
      simp only [rloop] at hr
      cases hk : idxKey idx l with
      | none => simp [hk] at hr
      | some vs =>
        simp only [hk, List.mem_map] at hr
        obtain ⟨⟨v, ps⟩, hin, rfl⟩ := hr
        exact ⟨fun p hp => hsat l vs (idxKey_mem hk) v ps hin p hp, rfl, rfl, rfl⟩
    | cons l2 rest2 =>
      simp only [rloop] at hr
      cases hk : idxKey idx l with
      | none => simp [hk] at hr
      | some vs =>
        simp only [hk, List.mem_flatMap] at hr
        obtain ⟨⟨v, ps⟩, hin, hr⟩ := hr
        have := ih (keepOnly idx ps) (plab ++ [v])
          (idsSat_mono (idsSat_keepOnly idx ps P hsat) (fun p hp => hp.1)) r hr
        exact this

theorem filter_partition_length (ps rok rko : List Nat)
    (h : ∀ p ∈ ps, (p ∈ rok ∧ p ∉ rko) ∨ (p ∉ rok ∧ p ∈ rko)) :
    (ps.filter (· ∈ rok)).length + (ps.filter (· ∈ rko)).length = ps.length := by
  induction ps with
  | nil => simp
  | cons a t ih =>
    have iht := ih (fun p hp => h p (by simp [hp]))
    rcases h a (by simp) with ⟨h1, h2⟩ | ⟨h1, h2⟩
    · simp only [List.filter_cons, h1, h2, decide_true, decide_false, if_true, List.length_cons]
      simp only [Bool.false_eq_true, if_false]
      omega
    · simp only [List.filter_cons, h1, h2, decide_true, decide_false, if_true, List.length_cons]
      simp only [Bool.false_eq_true, if_false]
      omega


theorem idsSat_valAdd (vs : List (Val × List Nat)) (v : Val) (p : Nat) (P : Nat → Prop)
    (h : ∀ w ps, (w, ps) ∈ vs → ∀ q ∈ ps, P q) (hp : P p) :
    ∀ w ps, (w, ps) ∈ Browser.valAdd vs v p → ∀ q ∈ ps, P q := by
  induction vs with
  | nil =>
    intro w ps hm q hq
    simp only [Browser.valAdd, List.mem_singleton, Prod.mk.injEq] at hm
    obtain ⟨_, rfl⟩ := hm
    simp only [List.mem_singleton] at hq
    subst hq; exact hp
  | cons hd tl ih =>
    obtain ⟨w0, ps0⟩ := hd
    intro w ps hm q hq
    simp only [Browser.valAdd] at hm
    by_cases hw : w0 = v
    · simp only [hw, if_true, List.mem_cons, Prod.mk.injEq] at hm
      rcases hm with ⟨_, rfl⟩ | hm
      · split at hq
        · exact h w0 ps0 (by simp) q hq
        · rcases List.mem_append.mp hq with hq | hq
          · exact h w0 ps0 (by simp) q hq
          · simp only [List.mem_singleton] at hq; subst hq; exact hp
      · exact h w ps (by simp [hm]) q hq
    · simp only [hw, if_false, List.mem_cons, Prod.mk.injEq] at hm
      rcases hm with ⟨rfl, rfl⟩ | hm
      · exact h w ps (by simp) q hq
      · exact ih (fun w' ps' hm' => h w' ps' (by simp [hm'])) w ps hm q hq

theorem idsSat_idxAdd (idx : Index) (k : String) (v : Val) (p : Nat) (P : Nat → Prop)
    (h : IdsSat idx P) (hp : P p) : IdsSat (idxAdd idx k v p) P := by
  induction idx with
  | nil =>
    intro k' vs hk w ps hv q hq
    simp only [idxAdd, List.mem_singleton, Prod.mk.injEq] at hk
    obtain ⟨_, rfl⟩ := hk
    simp only [List.mem_singleton, Prod.mk.injEq] at hv
    obtain ⟨_, rfl⟩ := hv
    simp only [List.mem_singleton] at hq
    subst hq; exact hp
  | cons hd tl ih =>
    obtain ⟨k0, vs0⟩ := hd
    intro k' vs hk w ps hv q hq
    simp only [idxAdd] at hk
    by_cases hw : k0 = k
    · simp only [hw, if_true, List.mem_cons, Prod.mk.injEq] at hk
      rcases hk with ⟨_, rfl⟩ | hk
      · exact idsSat_valAdd vs0 v p P (fun w' ps' hm => h k0 vs0 (by simp) w' ps' hm) hp w ps hv q hq
      · exact h k' vs (by simp [hk]) w ps hv q hq
    · simp only [hw, if_false, List.mem_cons, Prod.mk.injEq] at hk
      rcases hk with ⟨rfl, rfl⟩ | hk
      · exact h k' vs (by simp) w ps hv q hq
      · exact ih (fun k2 vs2 hk2 => h k2 vs2 (by simp [hk2])) k' vs hk w ps hv q hq

theorem idsSat_indexDict (d : LDict) (idx : Index) (p : Nat) (P : Nat → Prop)
    (h : IdsSat idx P) (hp : P p) : IdsSat (indexDict idx p d) P := by
  unfold indexDict
  induction d generalizing idx with
  | nil => exact h
  | cons hd tl ih => exact ih _ (idsSat_idxAdd idx hd.1 hd.2 p P h hp)

theorem idsSat_buildIndexFrom (lod : List LDict) (idx : Index) (p : Nat) (n : Nat)
    (h : IdsSat idx (· < n)) (hn : p + lod.length ≤ n) : IdsSat (buildIndexFrom idx p lod) (· < n) := by
  induction lod generalizing idx p with
  | nil => exact h
  | cons hd tl ih =>
    simp only [List.length_cons] at hn
    exact ih _ (p + 1) (idsSat_indexDict hd idx p _ h (by omega)) (by omega)

theorem get_set_self (d : LDict) (k : String) (v : Val) : Browser.Item.get (Browser.Item.set d k v) k = some v := by
  induction d with
  | nil => simp [Browser.Item.set, Browser.Item.get]
  | cons hd tl ih =>
    obtain ⟨k0, v0⟩ := hd
    simp only [Browser.Item.set]
    by_cases h : k0 = k
    · simp [h, Browser.Item.get]
    · simp [h, Browser.Item.get, ih]

end Diag
