import Proofs.SchedInv
/-! Counting and phase invariants of the scheduler model (C03, and the end of C02): the queue counter, the owner of the
condition variable, the sentinels, who still has work to do while the master sleeps. -/
set_option linter.unusedVariables false
set_option linter.unusedSimpArgs false
namespace Sched

/-- the worker has taken an item from the queue and has not called `task_done()` for it yet -/
def owes : WPc → Bool
  | .timeStart _ | .timeEnd _ _ | .apply _ _ _ | .clocks _ _ _ | .status _ | .taskDone | .sentinelDone => true
  | _ => false

/-- the worker will notify the master before it blocks again -/
def willNotify : WPc → Bool
  | .timeStart _ | .timeEnd _ _ | .apply _ _ _ | .clocks _ _ _ | .status _ | .taskDone | .cacq | .notify => true
  | _ => false

/-- the worker has consumed its sentinel -/
def gone : WPc → Bool
  | .sentinelDone | .exited => true
  | _ => false

def cnt (p : WPc → Bool) (f : Nat → WPc) (n : Nat) : Nat := (List.range n).countP fun w => p (f w)

theorem cnt_succ (p : WPc → Bool) (f : Nat → WPc) (n : Nat) :
    cnt p f (n + 1) = cnt p f n + (if p (f n) then 1 else 0) := by
  simp [cnt, List.range_succ, List.countP_append, List.countP_cons]

theorem cnt_upd_ge (p : WPc → Bool) (f : Nat → WPc) (w : Nat) (pc : WPc) (n : Nat) (h : n ≤ w) :
    cnt p (upd f w pc) n = cnt p f n := by
  induction n with
  | zero => rfl
  | succ k ih =>
    rw [cnt_succ, cnt_succ, ih (by omega)]
    have : k ≠ w := by omega
    simp [upd, this]

theorem cnt_upd (p : WPc → Bool) (f : Nat → WPc) (w : Nat) (pc : WPc) (n : Nat) (h : w < n) :
    cnt p (upd f w pc) n + (if p (f w) then 1 else 0) = cnt p f n + (if p pc then 1 else 0) := by
  induction n with
  | zero => omega
  | succ k ih =>
    rw [cnt_succ, cnt_succ]
    by_cases hk : w = k
    · subst hk
      rw [cnt_upd_ge p f w pc w (Nat.le_refl _)]
      simp [upd]; omega
    · have hlt : w < k := by omega
      have := ih hlt
      have hne : k ≠ w := fun e => hk e.symm
      simp only [upd, hne, if_false]
      omega

theorem cnt_pos_iff (p : WPc → Bool) (f : Nat → WPc) (n : Nat) : 0 < cnt p f n ↔ ∃ w, w < n ∧ p (f w) = true := by
  simp [cnt, List.countP_pos_iff]

theorem cnt_zero_iff (p : WPc → Bool) (f : Nat → WPc) (n : Nat) : cnt p f n = 0 ↔ ∀ w, w < n → p (f w) = false := by
  simp [cnt, List.countP_eq_zero]

theorem cnt_le (p : WPc → Bool) (f : Nat → WPc) (n : Nat) : cnt p f n ≤ n := by
  have := List.countP_le_length (p := fun w => p (f w)) (l := List.range n)
  simpa [cnt] using this

/-- number of sentinels in the queue -/
def nones (q : List (Option Nat)) : Nat := q.countP (·.isNone)

/-- somebody will wake the master up: a task is queued or being queued, or a worker is on its way to `notify_all` -/
def HasWork (c : Cfg) (s : State) : Prop :=
  (∃ t, some t ∈ s.queue) ∨ (∃ t, s.mpc = .put t) ∨ ∃ w, w < c.workers ∧ willNotify (s.wpc w) = true

def holdsCond (m : MPc) : Bool :=
  match m with
  | .consider | .put _ => true
  | _ => false

/-- phase of the master after the scheduling loop -/
def afterLoop (m : MPc) : Bool :=
  match m with
  | .qjoin | .sentinel _ | .joinW _ | .returned => true
  | _ => false

def afterJoin (m : MPc) : Bool :=
  match m with
  | .sentinel _ | .joinW _ | .returned => true
  | _ => false

/-- number of sentinels put so far -/
def sentinelsPut (c : Cfg) (m : MPc) : Nat :=
  match m with
  | .sentinel k => k
  | .joinW _ | .returned => c.workers
  | _ => 0

/-- which workers have been started, according to the master's program counter -/
def StartedOK (c : Cfg) (m : MPc) (f : Nat → WPc) : Prop :=
  match m with
  | .spawn k => k < c.workers ∧ ∀ w, w < c.workers → (w < k ↔ f w ≠ .notStarted)
  | .raised => ∀ w, f w = .notStarted
  | _ => ∀ w, w < c.workers → f w ≠ .notStarted

theorem StartedOK.upd {c : Cfg} {m : MPc} {f : Nat → WPc} (h : StartedOK c m f) (w : Nat) (pc : WPc)
    (hold : f w ≠ .notStarted) (hnew : pc ≠ .notStarted) : StartedOK c m (upd f w pc) := by
  unfold StartedOK at *
  cases m with
  | spawn k =>
    refine ⟨h.1, ?_⟩
    intro x hx
    by_cases e : x = w
    · subst e
      have : Sched.upd f x pc x = pc := upd_same f x pc
      rw [this, h.2 x hx]; exact ⟨fun _ => hnew, fun _ => hold⟩
    · rw [upd_other f w x pc e]; exact h.2 x hx
  | raised => exact absurd (h w) hold
  | acq | consider | put _ | wake | qjoin | sentinel _ | joinW _ | returned =>
    intro x hx
    by_cases e : x = w
    · subst e
      have : Sched.upd f x pc x = pc := upd_same f x pc
      rw [this]; exact hnew
    · rw [upd_other f w x pc e]; exact h x hx

structure InvC (c : Cfg) (s : State) : Prop where
  unstarted : ∀ w, c.workers ≤ w → s.wpc w = .notStarted
  started : StartedOK c s.mpc s.wpc
  count : s.unfinished = s.queue.length + cnt owes s.wpc c.workers
  cond_master : holdsCond s.mpc = true ↔ s.condOwner = some 0
  cond_worker : ∀ w, s.wpc w = .notify ↔ s.condOwner = some (w + 1)
  sentinels : nones s.queue + cnt gone s.wpc c.workers = sentinelsPut c s.mpc
  sentinel_lt : ∀ k, s.mpc = .sentinel k → k < c.workers
  join_lt : ∀ k, s.mpc = .joinW k → k < c.workers ∧ ∀ w, w < k → s.wpc w = .exited
  returned_exited : s.mpc = .returned → ∀ w, w < c.workers → s.wpc w = .exited
  after_loop : afterLoop s.mpc = true → s.todo = [] ∧ s.left = []
  after_join : afterJoin s.mpc = true → (∀ t, some t ∉ s.queue) ∧ ∀ w, held (s.wpc w) = none ∧ s.wpc w ≠ .taskDone
  waiting_iff : s.waiting = true ↔ s.mpc = .wake
  pass_work : holdsCond s.mpc = true → s.left ≠ [] → HasWork c s
  sleep_work : s.mpc = .wake → s.notified = false → HasWork c s
  pending_inflight : ∀ t x, t < c.n → ¬ Undecided s t → s.env.entry t = some x → x.st = .pending → InFlight s t
  consider_todo : s.mpc = .consider → s.todo ≠ []
  spawn_todo : ∀ k, s.mpc = .spawn k → s.todo = List.range c.n ∧ s.left = []
  acq_todo : s.mpc = .acq → s.todo ≠ [] ∧ s.left = []
  wake_left : s.mpc = .wake → s.left ≠ []

/-- the four ways `advance` can go -/
theorem advance_cases (s : State) :
    (s.todo.tail ≠ [] ∧ advance s = { s with todo := s.todo.tail, mpc := .consider }) ∨
    (s.todo.tail = [] ∧ s.left = [] ∧ advance s = { s with todo := [], mpc := .qjoin, condOwner := none }) ∨
    (s.todo.tail = [] ∧ s.left ≠ [] ∧ s.nBefore = s.left.length ∧
      advance s = { s with todo := [], mpc := .wake, condOwner := none, waiting := true, notified := false }) ∨
    (s.todo.tail = [] ∧ s.left ≠ [] ∧ s.nBefore ≠ s.left.length ∧
      advance s = { s with mpc := .acq, condOwner := none, todo := s.left, left := [], nBefore := s.left.length }) := by
  unfold advance
  simp only
  by_cases ht : s.todo.tail = []
  · simp only [ht, List.isEmpty_nil, if_true]
    unfold passEnd
    simp only
    by_cases hl : s.left = []
    · right; left; simp [ht, hl]
    · have hl' : s.left.isEmpty = false := by simpa using hl
      simp only [hl', Bool.false_eq_true, if_false]
      by_cases hn : s.nBefore = s.left.length
      · right; right; left; simp [ht, hl, hn]
      · right; right; right; simp [ht, hl, hn]
  · left
    have : s.todo.tail.isEmpty = false := by simpa using ht
    simp [ht, this]

/-- `advance` preserves the liveness invariant, given what holds just before it -/
theorem InvC_advance {c : Cfg} {s1 : State}
    (p_unstarted : ∀ w, c.workers ≤ w → s1.wpc w = .notStarted)
    (p_started : ∀ w, w < c.workers → s1.wpc w ≠ .notStarted)
    (p_count : s1.unfinished = s1.queue.length + cnt owes s1.wpc c.workers)
    (p_cond : s1.condOwner = some 0)
    (p_nonotify : ∀ w, s1.wpc w ≠ .notify)
    (p_sent : nones s1.queue + cnt gone s1.wpc c.workers = 0)
    (p_waiting : s1.waiting = false)
    (p_work : s1.left ≠ [] → (∃ t, some t ∈ s1.queue) ∨ ∃ w, w < c.workers ∧ willNotify (s1.wpc w) = true)
    (p_pend : ∀ t x, t < c.n → t ∉ s1.todo.tail → t ∉ s1.left → s1.env.entry t = some x → x.st = .pending →
      some t ∈ s1.queue ∨ ∃ w, held (s1.wpc w) = some t) :
    InvC c (advance s1) := by
  have hU := undecided_advance s1
  have hF := inflight_advance s1
  have hpend : ∀ t x, t < c.n → ¬ Undecided (advance s1) t → (advance s1).env.entry t = some x → x.st = .pending →
      InFlight (advance s1) t := by
    intro t x ht hu hx hp
    rw [(advance_fields s1).1] at hx
    rw [hF]
    rw [hU] at hu
    exact p_pend t x ht (fun hc => hu (Or.inl hc)) (fun hc => hu (Or.inr hc)) hx hp
  have hnot : ∀ (cO : Option Nat), (cO = some 0 ∨ cO = none) → ∀ w, s1.wpc w = .notify ↔ cO = some (w + 1) := by
    intro cO hcO w
    constructor
    · intro hw; exact absurd hw (p_nonotify w)
    · intro hw; rcases hcO with e | e <;> rw [e] at hw
      · injection hw with hw; omega
      · cases hw
  have hwork : s1.left ≠ [] → ∀ m, HasWork c { s1 with mpc := m } := by
    intro hl m
    rcases p_work hl with hq | hw
    · exact Or.inl hq
    · exact Or.inr (Or.inr hw)
  rcases advance_cases s1 with ⟨ht, e⟩ | ⟨ht, hl, e⟩ | ⟨ht, hl, hn, e⟩ | ⟨ht, hl, hn, e⟩
  · rw [e] at hpend ⊢
    exact {
      unstarted := p_unstarted, started := p_started, count := p_count
      cond_master := by simp [holdsCond, p_cond]
      cond_worker := hnot _ (Or.inl p_cond)
      sentinels := by simpa [sentinelsPut] using p_sent
      sentinel_lt := by intro k hk; cases hk
      join_lt := by intro k hk; cases hk
      returned_exited := by intro hk; cases hk
      after_loop := by intro hk; cases hk
      after_join := by intro hk; cases hk
      waiting_iff := by simp [p_waiting]
      pass_work := by
        intro _ hl
        rcases p_work hl with hq | hw
        · exact Or.inl hq
        · exact Or.inr (Or.inr hw)
      sleep_work := by intro hk; cases hk
      pending_inflight := hpend
      consider_todo := by intro _; exact ht
      spawn_todo := by intro k hk; cases hk
      acq_todo := by intro hk; cases hk
      wake_left := by intro hk; cases hk }
  · rw [e] at hpend ⊢
    exact {
      unstarted := p_unstarted, started := p_started, count := p_count
      cond_master := by simp [holdsCond]
      cond_worker := hnot _ (Or.inr rfl)
      sentinels := by simpa [sentinelsPut] using p_sent
      sentinel_lt := by intro k hk; cases hk
      join_lt := by intro k hk; cases hk
      returned_exited := by intro hk; cases hk
      after_loop := by intro _; exact ⟨rfl, hl⟩
      after_join := by intro hk; cases hk
      waiting_iff := by simp [p_waiting]
      pass_work := by intro hk; cases hk
      sleep_work := by intro hk; cases hk
      pending_inflight := hpend
      consider_todo := by intro hk; cases hk
      spawn_todo := by intro k hk; cases hk
      acq_todo := by intro hk; cases hk
      wake_left := by intro hk; cases hk }
  · rw [e] at hpend ⊢
    exact {
      unstarted := p_unstarted, started := p_started, count := p_count
      cond_master := by simp [holdsCond]
      cond_worker := hnot _ (Or.inr rfl)
      sentinels := by simpa [sentinelsPut] using p_sent
      sentinel_lt := by intro k hk; cases hk
      join_lt := by intro k hk; cases hk
      returned_exited := by intro hk; cases hk
      after_loop := by intro hk; cases hk
      after_join := by intro hk; cases hk
      waiting_iff := by simp
      pass_work := by intro hk; cases hk
      sleep_work := by
        intro _ _
        rcases p_work hl with hq | hw
        · exact Or.inl hq
        · exact Or.inr (Or.inr hw)
      pending_inflight := hpend
      consider_todo := by intro hk; cases hk
      spawn_todo := by intro k hk; cases hk
      acq_todo := by intro hk; cases hk
      wake_left := by intro _; exact hl }
  · rw [e] at hpend ⊢
    exact {
      unstarted := p_unstarted, started := p_started, count := p_count
      cond_master := by simp [holdsCond]
      cond_worker := hnot _ (Or.inr rfl)
      sentinels := by simpa [sentinelsPut] using p_sent
      sentinel_lt := by intro k hk; cases hk
      join_lt := by intro k hk; cases hk
      returned_exited := by intro hk; cases hk
      after_loop := by intro hk; cases hk
      after_join := by intro hk; cases hk
      waiting_iff := by simp [p_waiting]
      pass_work := by intro hk; cases hk
      sleep_work := by intro hk; cases hk
      pending_inflight := hpend
      consider_todo := by intro hk; cases hk
      spawn_todo := by intro k hk; cases hk
      acq_todo := by intro _; exact ⟨hl, rfl⟩
      wake_left := by intro hk; cases hk }

theorem InvC.worker_lt {c : Cfg} {s : State} (h : InvC c s) {w : Nat} (hw : s.wpc w ≠ .notStarted) : w < c.workers := by
  apply Classical.byContradiction
  intro hge
  exact hw (h.unstarted w (by omega))

/-- a worker step: the clauses that do not depend on the particular step -/
theorem InvC_worker {c : Cfg} {s : State} (h : InvC c s) (w : Nat) (pn : WPc)
    (ho1 : s.wpc w ≠ .notStarted) (ho2 : s.wpc w ≠ .exited) (hn1 : pn ≠ .notStarted)
    (env' : Env) (q' : List (Option Nat)) (u' : Nat) (cO' : Option Nat) (nt' : Bool) (clk' : Nat)
    (ec' : Nat → Nat) (seen' : Nat → Option (List (Option Entry)))
    (v_count : u' = q'.length + cnt owes (upd s.wpc w pn) c.workers)
    (v_condm : holdsCond s.mpc = true ↔ cO' = some 0)
    (v_condw : ∀ x, upd s.wpc w pn x = .notify ↔ cO' = some (x + 1))
    (v_sent : nones q' + cnt gone (upd s.wpc w pn) c.workers = sentinelsPut c s.mpc)
    (v_after : afterJoin s.mpc = true → (∀ t, some t ∉ q') ∧ held pn = none ∧ pn ≠ .taskDone)
    (v_pass : holdsCond s.mpc = true → s.left ≠ [] → (∃ t, some t ∈ q') ∨ (∃ t, s.mpc = .put t) ∨
      ∃ x, x < c.workers ∧ willNotify (upd s.wpc w pn x) = true)
    (v_sleep : s.mpc = .wake → nt' = false → (∃ t, some t ∈ q') ∨ (∃ t, s.mpc = .put t) ∨
      ∃ x, x < c.workers ∧ willNotify (upd s.wpc w pn x) = true)
    (v_pend : ∀ t x, t < c.n → ¬ Undecided s t → env'.entry t = some x → x.st = .pending →
      some t ∈ q' ∨ s.mpc = .put t ∨ ∃ y, held (upd s.wpc w pn y) = some t) :
    InvC c { s with env := env', queue := q', unfinished := u', condOwner := cO', notified := nt', clock := clk',
                    execCount := ec', seen := seen', wpc := upd s.wpc w pn } := by
  have hwlt : w < c.workers := h.worker_lt ho1
  exact {
    unstarted := by
      intro x hx
      have : x ≠ w := by omega
      show upd s.wpc w pn x = _
      rw [upd_other _ _ _ _ this]; exact h.unstarted x hx
    started := h.started.upd w pn ho1 hn1
    count := v_count
    cond_master := v_condm
    cond_worker := v_condw
    sentinels := v_sent
    sentinel_lt := h.sentinel_lt
    join_lt := by
      intro k hk
      obtain ⟨h1, h2⟩ := h.join_lt k hk
      refine ⟨h1, ?_⟩
      intro x hx
      have hne : x ≠ w := by intro e; subst e; exact ho2 (h2 x hx)
      show upd s.wpc w pn x = _
      rw [upd_other _ _ _ _ hne]; exact h2 x hx
    returned_exited := by
      intro hr x hx
      exact absurd (h.returned_exited hr w hwlt) ho2
    after_loop := h.after_loop
    after_join := by
      intro ha
      obtain ⟨a1, a2, a3⟩ := v_after ha
      refine ⟨a1, ?_⟩
      intro x
      show held (upd s.wpc w pn x) = none ∧ upd s.wpc w pn x ≠ .taskDone
      by_cases e : x = w
      · subst e; rw [upd_same]; exact ⟨a2, a3⟩
      · rw [upd_other _ _ _ _ e]; exact (h.after_join ha).2 x
    waiting_iff := h.waiting_iff
    pass_work := v_pass
    sleep_work := v_sleep
    pending_inflight := v_pend
    consider_todo := h.consider_todo
    spawn_todo := h.spawn_todo
    acq_todo := h.acq_todo
    wake_left := h.wake_left }

theorem cnt_upd_same (p : WPc → Bool) (f : Nat → WPc) (w : Nat) (pc : WPc) (n : Nat) (h : p (f w) = p pc) :
    cnt p (upd f w pc) n = cnt p f n := by
  by_cases hw : w < n
  · have := cnt_upd p f w pc n hw
    rw [h] at this; omega
  · exact cnt_upd_ge p f w pc n (by omega)

theorem hasWork_upd {c : Cfg} {s : State} (w : Nat) (pn : WPc) (hmono : willNotify (s.wpc w) = true → willNotify pn = true)
    (hw : HasWork c s) :
    (∃ t, some t ∈ s.queue) ∨ (∃ t, s.mpc = .put t) ∨ ∃ x, x < c.workers ∧ willNotify (upd s.wpc w pn x) = true := by
  rcases hw with hq | hp | ⟨x, hx, hwn⟩
  · exact Or.inl hq
  · exact Or.inr (Or.inl hp)
  · refine Or.inr (Or.inr ⟨x, hx, ?_⟩)
    by_cases e : x = w
    · subst e; rw [upd_same]; exact hmono hwn
    · rw [upd_other _ _ _ _ e]; exact hwn

/-- a worker step that only moves the program counter (and possibly the entry of its own task) -/
theorem InvC_worker_simple {c : Cfg} {s : State} (h : InvC c s) (w : Nat) (pn : WPc)
    (ho1 : s.wpc w ≠ .notStarted) (ho2 : s.wpc w ≠ .exited) (hn1 : pn ≠ .notStarted)
    (howes : owes (s.wpc w) = owes pn) (hgone : gone (s.wpc w) = gone pn)
    (hnot1 : s.wpc w ≠ .notify) (hnot2 : pn ≠ .notify)
    (hmono : willNotify (s.wpc w) = true → willNotify pn = true)
    (hafter : afterJoin s.mpc = true → held (s.wpc w) = none ∧ s.wpc w ≠ .taskDone → held pn = none ∧ pn ≠ .taskDone)
    (env' : Env) (clk' : Nat) (ec' : Nat → Nat) (seen' : Nat → Option (List (Option Entry)))
    (v_pend : ∀ t x, t < c.n → ¬ Undecided s t → env'.entry t = some x → x.st = .pending →
      some t ∈ s.queue ∨ s.mpc = .put t ∨ ∃ y, held (upd s.wpc w pn y) = some t) :
    InvC c { s with env := env', clock := clk', execCount := ec', seen := seen', wpc := upd s.wpc w pn } := by
  have := InvC_worker h w pn ho1 ho2 hn1 env' s.queue s.unfinished s.condOwner s.notified clk' ec' seen'
    (by rw [cnt_upd_same owes _ _ _ _ howes]; exact h.count)
    h.cond_master
    (by intro x
        by_cases e : x = w
        · subst e; rw [upd_same]
          constructor
          · intro hh; exact absurd hh hnot2
          · intro hh; exact absurd ((h.cond_worker x).2 hh) hnot1
        · rw [upd_other _ _ _ _ e]; exact h.cond_worker x)
    (by rw [cnt_upd_same gone _ _ _ _ hgone]; exact h.sentinels)
    (by intro ha
        obtain ⟨a1, a2⟩ := h.after_join ha
        obtain ⟨b1, b2⟩ := hafter ha (a2 w)
        exact ⟨a1, b1, b2⟩)
    (by intro hc hl; exact hasWork_upd w pn hmono (h.pass_work hc hl))
    (by intro hc hl; exact hasWork_upd w pn hmono (h.sleep_work hc hl))
    v_pend
  exact this

/-- in-flight tasks stay in flight when a worker keeps (or acquires from the queue head) its task -/
theorem pend_of_inflight {c : Cfg} {s : State} (h : InvC c s) (w : Nat) (pn : WPc)
    (hheld : ∀ t, held (s.wpc w) = some t → held pn = some t)
    (t : Nat) (x : Entry) (ht : t < c.n) (hu : ¬ Undecided s t) (hx : s.env.entry t = some x) (hp : x.st = .pending) :
    some t ∈ s.queue ∨ s.mpc = .put t ∨ ∃ y, held (upd s.wpc w pn y) = some t := by
  rcases h.pending_inflight t x ht hu hx hp with hq | hm | ⟨y, hy⟩
  · exact Or.inl hq
  · exact Or.inr (Or.inl hm)
  · refine Or.inr (Or.inr ⟨y, ?_⟩)
    by_cases e : y = w
    · subst e; rw [upd_same]; exact hheld t hy
    · rw [upd_other _ _ _ _ e]; exact hy

theorem held_willNotify {pc : WPc} {t : Nat} (h : held pc = some t) : willNotify pc = true := by
  cases pc <;> first | rfl | cases h
theorem held_owes {pc : WPc} {t : Nat} (h : held pc = some t) : owes pc = true := by
  cases pc <;> first | rfl | cases h

theorem nones_append_none (q : List (Option Nat)) : nones (q ++ [none]) = nones q + 1 := by
  simp [nones, List.countP_append]
theorem nones_append_some (q : List (Option Nat)) (t : Nat) : nones (q ++ [some t]) = nones q := by
  simp [nones, List.countP_append]

/-- the master's decision steps share this preparation for `InvC_advance` -/
theorem InvC_decide_advance {c : Cfg} (hc : c.WF) {s : State} (ha : InvA c s) (h : InvC c s)
    (hm : s.mpc = .consider) (t : Nat) (rest : List Nat) (ht : s.todo = t :: rest) (env' : Env)
    (hframe : ∀ x, x ≠ t → env'.entry x = s.env.entry x)
    (newLeft : List Nat)
    (hmode : (newLeft = s.left ∧ ∀ y, env'.entry t = some y → y.st ≠ .pending) ∨
             (newLeft = s.left ++ [t] ∧ HasWork c s)) :
    InvC c (advance { s with env := env', left := newLeft }) := by
  have hnp : ∀ x, s.mpc ≠ .put x := by intro x hx; rw [hm] at hx; cases hx
  have hcond : s.condOwner = some 0 := h.cond_master.1 (by rw [hm]; rfl)
  have hstarted : ∀ w, w < c.workers → s.wpc w ≠ .notStarted := by
    have := h.started; rw [hm] at this; exact this
  have hwork_of : HasWork c s → (∃ t, some t ∈ s.queue) ∨ ∃ w, w < c.workers ∧ willNotify (s.wpc w) = true := by
    rintro (hq | ⟨x, hx⟩ | hw)
    · exact Or.inl hq
    · exact absurd hx (hnp x)
    · exact Or.inr hw
  apply InvC_advance
  · exact h.unstarted
  · exact hstarted
  · exact h.count
  · exact hcond
  · intro w hw
    have := (h.cond_worker w).1 hw
    rw [hcond] at this; injection this with this; omega
  · have := h.sentinels; rw [hm] at this; simpa [sentinelsPut] using this
  · cases hw : s.waiting with
    | false => rfl
    | true => have := h.waiting_iff.1 hw; rw [hm] at this; cases this
  · intro hl
    rcases hmode with ⟨e, _⟩ | ⟨_, hw⟩
    · apply hwork_of
      exact h.pass_work (by rw [hm]; rfl) (by rw [← e]; exact hl)
    · exact hwork_of hw
  · intro x y hx hxt hxl hy hp
    show some x ∈ s.queue ∨ ∃ w, held (s.wpc w) = some x
    have hxt' : x ∉ rest := by simpa [ht] using hxt
    by_cases e : x = t
    · subst e
      rcases hmode with ⟨_, hnp'⟩ | ⟨e2, _⟩
      · exact absurd hp (hnp' y hy)
      · exfalso; apply hxl; show x ∈ newLeft; rw [e2]; simp
    · have hu : ¬ Undecided s x := by
        rintro (hu | hu)
        · rw [ht] at hu
          rcases List.mem_cons.1 hu with hu | hu
          · exact e hu
          · exact hxt' hu
        · apply hxl; show x ∈ newLeft
          rcases hmode with ⟨e2, _⟩ | ⟨e2, _⟩ <;> rw [e2]
          · exact hu
          · exact List.mem_append_left _ hu
      have hy' : s.env.entry x = some y := by rw [← hframe x e]; exact hy
      rcases h.pending_inflight x y hx hu hy' hp with hq | hq | hq
      · exact Or.inl hq
      · exact absurd hq (hnp x)
      · exact Or.inr hq

/-- **The liveness invariant is preserved by every step.** -/
theorem InvC_step {c : Cfg} (hc : c.WF) {s s' : State} (ha : InvA c s) (h : InvC c s) (hs : Step c s s') : InvC c s' := by
  cases hs with
  | mSpawn k hm =>
    have hst := h.started; rw [hm] at hst
    obtain ⟨hk, hsk⟩ := hst
    have hold : s.wpc k = .notStarted := by
      apply Classical.byContradiction
      intro hne
      exact Nat.lt_irrefl k ((hsk k hk).2 hne)
    have hnotwake : afterSpawn c k ≠ .wake := by unfold afterSpawn; split <;> (try split) <;> simp
    exact {
      unstarted := by
        intro x hx
        show upd s.wpc k .begin x = _
        rw [upd_other _ _ _ _ (by omega)]; exact h.unstarted x hx
      started := by
        show StartedOK c (afterSpawn c k) (upd s.wpc k .begin)
        unfold afterSpawn
        split
        · rename_i hk1
          refine ⟨hk1, ?_⟩
          intro x hx
          by_cases e : x = k
          · subst e; rw [upd_same]; simp
          · rw [upd_other _ _ _ _ e, ← hsk x hx]; omega
        · rename_i hk1
          have hall : ∀ x, x < c.workers → upd s.wpc k .begin x ≠ .notStarted := by
            intro x hx
            by_cases e : x = k
            · subst e; rw [upd_same]; simp
            · rw [upd_other _ _ _ _ e, ← hsk x hx]; omega
          split <;> exact hall
      count := by
        show s.unfinished = s.queue.length + cnt owes (upd s.wpc k .begin) c.workers
        rw [cnt_upd_same owes _ _ _ _ (by rw [hold]; rfl)]; exact h.count
      cond_master := by
        have := h.cond_master; rw [hm] at this
        show holdsCond (afterSpawn c k) = true ↔ s.condOwner = some 0
        have hf : holdsCond (afterSpawn c k) = false := by unfold afterSpawn; split <;> (try split) <;> rfl
        rw [hf]; simpa [holdsCond] using this
      cond_worker := by
        intro x
        show upd s.wpc k .begin x = .notify ↔ _
        by_cases e : x = k
        · subst e; rw [upd_same]
          have := h.cond_worker x; rw [hold] at this
          constructor
          · intro hh; cases hh
          · intro hh; exact absurd (this.2 hh) (by simp)
        · rw [upd_other _ _ _ _ e]; exact h.cond_worker x
      sentinels := by
        show nones s.queue + cnt gone (upd s.wpc k .begin) c.workers = sentinelsPut c (afterSpawn c k)
        rw [cnt_upd_same gone _ _ _ _ (by rw [hold]; rfl)]
        have := h.sentinels; rw [hm] at this
        have hf : sentinelsPut c (afterSpawn c k) = 0 := by unfold afterSpawn; split <;> (try split) <;> rfl
        rw [hf]; simpa [sentinelsPut] using this
      sentinel_lt := by intro j hj; exfalso; revert hj; show afterSpawn c k = _ → False; unfold afterSpawn; split <;> (try split) <;> simp
      join_lt := by intro j hj; exfalso; revert hj; show afterSpawn c k = _ → False; unfold afterSpawn; split <;> (try split) <;> simp
      returned_exited := by intro hj; exfalso; revert hj; show afterSpawn c k = _ → False; unfold afterSpawn; split <;> (try split) <;> simp
      after_loop := by
        intro _
        obtain ⟨h1, h2⟩ := h.spawn_todo k hm
        have hal : afterLoop (afterSpawn c k) = true := by assumption
        have hn0 : c.n = 0 := by
          revert hal; unfold afterSpawn
          split
          · intro hh; cases hh
          · split
            · intro _; assumption
            · intro hh; cases hh
        exact ⟨by show s.todo = []; rw [h1, hn0]; rfl, h2⟩
      after_join := by intro hj; exfalso; revert hj; show afterJoin (afterSpawn c k) = true → False; unfold afterSpawn; split <;> (try split) <;> simp [afterJoin]
      waiting_iff := by
        show s.waiting = true ↔ afterSpawn c k = .wake
        constructor
        · intro hw; have := h.waiting_iff.1 hw; rw [hm] at this; cases this
        · intro hw; exact absurd hw hnotwake
      pass_work := by intro hj; exfalso; revert hj; show holdsCond (afterSpawn c k) = true → False; unfold afterSpawn; split <;> (try split) <;> simp [holdsCond]
      sleep_work := by intro hj; exact absurd hj hnotwake
      pending_inflight := by
        intro t x ht hu hx hp
        rcases h.pending_inflight t x ht hu hx hp with hq | hq | ⟨y, hy⟩
        · exact Or.inl hq
        · rw [hm] at hq; cases hq
        · refine Or.inr (Or.inr ⟨y, ?_⟩)
          show held (upd s.wpc k .begin y) = some t
          by_cases e : y = k
          · subst e; rw [hold] at hy; cases hy
          · rw [upd_other _ _ _ _ e]; exact hy
      consider_todo := by intro hj; exfalso; revert hj; show afterSpawn c k = _ → False; unfold afterSpawn; split <;> (try split) <;> simp
      spawn_todo := by
        intro j hj
        exact h.spawn_todo k hm
      acq_todo := by
        intro hj
        obtain ⟨h1, h2⟩ := h.spawn_todo k hm
        have hn0 : c.n ≠ 0 := by
          revert hj; show afterSpawn c k = _ → _; unfold afterSpawn
          split
          · intro hh; cases hh
          · split
            · intro hh; cases hh
            · intro _; assumption
        refine ⟨?_, h2⟩
        show s.todo ≠ []
        rw [h1]; intro e
        have : (List.range c.n).length = 0 := by rw [e]; rfl
        simp at this; exact hn0 this
      wake_left := by intro hj; exact absurd hj hnotwake }
  | mAcq hm hco =>
    obtain ⟨ht, hl⟩ := h.acq_todo hm
    have hst := h.started; rw [hm] at hst
    exact {
      unstarted := h.unstarted
      started := hst
      count := h.count
      cond_master := by simp [holdsCond]
      cond_worker := by
        intro w
        show s.wpc w = .notify ↔ some 0 = some (w + 1)
        constructor
        · intro hw; have := (h.cond_worker w).1 hw; rw [hco] at this; cases this
        · intro hw; injection hw with hw; omega
      sentinels := by have := h.sentinels; rw [hm] at this; simpa [sentinelsPut] using this
      sentinel_lt := by intro k hk; cases hk
      join_lt := by intro k hk; cases hk
      returned_exited := by intro hk; cases hk
      after_loop := by intro hk; cases hk
      after_join := by intro hk; cases hk
      waiting_iff := by
        show s.waiting = true ↔ MPc.consider = .wake
        constructor
        · intro hw; have := h.waiting_iff.1 hw; rw [hm] at this; cases this
        · intro hw; cases hw
      pass_work := by intro _ hl'; exact absurd hl hl'
      sleep_work := by intro hk; cases hk
      pending_inflight := by
        intro t x ht' hu hx hp
        rcases h.pending_inflight t x ht' hu hx hp with hq | hq | hq
        · exact Or.inl hq
        · rw [hm] at hq; cases hq
        · exact Or.inr (Or.inr hq)
      consider_todo := by intro _; exact ht
      spawn_todo := by intro k hk; cases hk
      acq_todo := by intro hk; cases hk
      wake_left := by intro hk; cases hk }
  | mWait t rest env' hm ht hd =>
    obtain ⟨hframe, _⟩ := decide_spec c s.env s.left t _ env' hd
    have hnp : ∀ x, s.mpc ≠ .put x := by intro x hx; rw [hm] at hx; cases hx
    apply InvC_decide_advance hc ha h hm t rest ht env' hframe (s.left ++ [t])
    right
    refine ⟨rfl, ?_⟩
    by_cases hl : s.left = []
    · -- the first task of the pass that has to wait: one of its dependencies is still pending, hence in flight
      have hself : t ∉ c.depsOf t := fun hh => Nat.lt_irrefl t (hc.deps_lt t t hh)
      obtain ⟨d, hdm, hr⟩ := decide_wait_reason c s.env s.left t env' hself hd
      have hdlt : d < t := hc.deps_lt t d hdm
      have ht_lt : t < c.n := ha.undecided_lt t (Or.inl (by rw [ht]; simp))
      have hdu : ¬ Undecided s d := by
        rintro (hdt | hdl)
        · rw [ht] at hdt
          rcases List.mem_cons.1 hdt with e | hdt
          · omega
          · have := ha.todo_sorted; rw [ht, List.pairwise_cons] at this
            have := this.1 d hdt; omega
        · rw [hl] at hdl; simp at hdl
      obtain ⟨z, hz, hzs⟩ := ha.decided_status d (by omega) hdu
      have hzp : z.st = .pending := by
        rcases hr with hr | hr | ⟨x, hx, hxp⟩ | ⟨x, hx, hxw⟩
        · rw [hl] at hr; simp at hr
        · rw [hz] at hr; cases hr
        · rw [hz] at hx; injection hx with hx; subst hx; exact hxp
        · rw [hz] at hx; injection hx with hx; subst hx
          rcases hzs with hzs | hzs <;> (rw [hxw] at hzs; cases hzs)
      rcases h.pending_inflight d z (by omega) hdu hz hzp with hq | hq | ⟨w, hw⟩
      · exact Or.inl ⟨d, hq⟩
      · exact absurd hq (hnp d)
      · refine Or.inr (Or.inr ⟨w, h.worker_lt (by intro e; rw [e] at hw; cases hw), held_willNotify hw⟩)
    · exact h.pass_work (by rw [hm]; rfl) hl
  | mSkip t rest env' hm ht hd =>
    obtain ⟨hframe, ⟨y, hy, _, _, _, hskip, _, _⟩, _⟩ := decide_spec c s.env s.left t _ env' hd
    apply InvC_decide_advance hc ha h hm t rest ht env' hframe s.left
    left
    refine ⟨rfl, ?_⟩
    intro y' hy' hp
    rw [hy] at hy'; injection hy' with hy'; subst hy'
    rw [hskip rfl] at hp; cases hp
  | mDrop t rest env' hm ht hd =>
    obtain ⟨hframe, ⟨y, hy, _, _, _, _, hdrop, _⟩, _⟩ := decide_spec c s.env s.left t _ env' hd
    apply InvC_decide_advance hc ha h hm t rest ht env' hframe s.left
    left
    refine ⟨rfl, ?_⟩
    intro y' hy' hp
    rw [hy] at hy'; injection hy' with hy'; subst hy'
    rw [(hdrop rfl).1] at hp; cases hp
  | mPending t rest env' hm ht hd =>
    obtain ⟨hframe, _⟩ := decide_spec c s.env s.left t _ env' hd
    have hst := h.started; rw [hm] at hst
    have hcond : s.condOwner = some 0 := h.cond_master.1 (by rw [hm]; rfl)
    exact {
      unstarted := h.unstarted
      started := hst
      count := h.count
      cond_master := by simp [holdsCond, hcond]
      cond_worker := h.cond_worker
      sentinels := by have := h.sentinels; rw [hm] at this; simpa [sentinelsPut] using this
      sentinel_lt := by intro k hk; cases hk
      join_lt := by intro k hk; cases hk
      returned_exited := by intro hk; cases hk
      after_loop := by intro hk; cases hk
      after_join := by intro hk; cases hk
      waiting_iff := by
        show s.waiting = true ↔ MPc.put t = .wake
        constructor
        · intro hw; have := h.waiting_iff.1 hw; rw [hm] at this; cases this
        · intro hw; cases hw
      pass_work := by intro _ _; exact Or.inr (Or.inl ⟨t, rfl⟩)
      sleep_work := by intro hk; cases hk
      pending_inflight := by
        intro x y hx hu hy hp
        have hne : x ≠ t := by intro e; subst e; exact hu (Or.inl (by show x ∈ s.todo; rw [ht]; simp))
        have hy' : s.env.entry x = some y := by rw [← hframe x hne]; exact hy
        rcases h.pending_inflight x y hx hu hy' hp with hq | hq | hq
        · exact Or.inl hq
        · rw [hm] at hq; cases hq
        · exact Or.inr (Or.inr hq)
      consider_todo := by intro hk; cases hk
      spawn_todo := by intro k hk; cases hk
      acq_todo := by intro hk; cases hk
      wake_left := by intro hk; cases hk }
  | mPut t hm =>
    obtain ⟨rest, ht⟩ := ha.put_head t hm
    have hcond : s.condOwner = some 0 := h.cond_master.1 (by rw [hm]; rfl)
    have hstarted : ∀ w, w < c.workers → s.wpc w ≠ .notStarted := by
      have := h.started; rw [hm] at this; exact this
    apply InvC_advance
    · exact h.unstarted
    · exact hstarted
    · show s.unfinished + 1 = (s.queue ++ [some t]).length + cnt owes s.wpc c.workers
      have := h.count; simp; omega
    · exact hcond
    · intro w hw
      have := (h.cond_worker w).1 hw
      rw [hcond] at this; injection this with this; omega
    · show nones (s.queue ++ [some t]) + cnt gone s.wpc c.workers = 0
      rw [nones_append_some]
      have := h.sentinels; rw [hm] at this; simpa [sentinelsPut] using this
    · show s.waiting = false
      cases hw : s.waiting with
      | false => rfl
      | true => have := h.waiting_iff.1 hw; rw [hm] at this; cases this
    · intro _; exact Or.inl ⟨t, by show some t ∈ s.queue ++ [some t]; simp⟩
    · intro x y hx hxt hxl hy hp
      show some x ∈ s.queue ++ [some t] ∨ ∃ w, held (s.wpc w) = some x
      have hxt' : x ∉ rest := by simpa [ht] using hxt
      by_cases e : x = t
      · subst e; left; simp
      · have hu : ¬ Undecided s x := by
          rintro (hu | hu)
          · rw [ht] at hu
            rcases List.mem_cons.1 hu with hu | hu
            · exact e hu
            · exact hxt' hu
          · exact hxl hu
        rcases h.pending_inflight x y hx hu hy hp with hq | hq | hq
        · exact Or.inl (List.mem_append_left _ hq)
        · rw [hm] at hq; injection hq with hq; exact absurd hq.symm e
        · exact Or.inr hq
  | mWake hm hn hco =>
    have hst := h.started; rw [hm] at hst
    have hl := h.wake_left hm
    exact {
      unstarted := h.unstarted
      started := hst
      count := h.count
      cond_master := by
        show holdsCond MPc.acq = true ↔ s.condOwner = some 0
        rw [hco]; simp [holdsCond]
      cond_worker := h.cond_worker
      sentinels := by have := h.sentinels; rw [hm] at this; simpa [sentinelsPut] using this
      sentinel_lt := by intro k hk; cases hk
      join_lt := by intro k hk; cases hk
      returned_exited := by intro hk; cases hk
      after_loop := by intro hk; cases hk
      after_join := by intro hk; cases hk
      waiting_iff := by simp
      pass_work := by intro hk; cases hk
      sleep_work := by intro hk; cases hk
      pending_inflight := by
        intro t x ht hu hx hp
        have hu' : ¬ Undecided s t := by
          intro hcc; apply hu
          rcases hcc with hcc | hcc
          · rw [ha.wake_todo hm] at hcc; simp at hcc
          · exact Or.inl hcc
        rcases h.pending_inflight t x ht hu' hx hp with hq | hq | hq
        · exact Or.inl hq
        · rw [hm] at hq; cases hq
        · exact Or.inr (Or.inr hq)
      consider_todo := by intro hk; cases hk
      spawn_todo := by intro k hk; cases hk
      acq_todo := by intro _; exact ⟨hl, rfl⟩
      wake_left := by intro hk; cases hk }
  | mQjoin hm hu =>
    have hst := h.started; rw [hm] at hst
    have hcnt := h.count; rw [hu] at hcnt
    have hq : s.queue = [] := by
      have : s.queue.length = 0 := by omega
      exact List.length_eq_zero_iff.1 this
    have howes : ∀ w, w < c.workers → owes (s.wpc w) = false := (cnt_zero_iff _ _ _).1 (by omega)
    have hnoheld : ∀ w, held (s.wpc w) = none ∧ s.wpc w ≠ .taskDone := by
      intro w
      by_cases hw : w < c.workers
      · have := howes w hw
        constructor
        · cases hh : held (s.wpc w) with
          | none => rfl
          | some t => rw [held_owes hh] at this; cases this
        · intro e; rw [e] at this; cases this
      · rw [h.unstarted w (by omega)]; exact ⟨rfl, by simp⟩
    have hnw : (if c.workers = 0 then MPc.returned else MPc.sentinel 0) ≠ .wake := by split <;> simp
    exact {
      unstarted := h.unstarted
      started := by
        show StartedOK c (if c.workers = 0 then MPc.returned else MPc.sentinel 0) s.wpc
        split <;> exact hst
      count := h.count
      cond_master := by
        have := h.cond_master; rw [hm] at this
        show holdsCond (if c.workers = 0 then MPc.returned else MPc.sentinel 0) = true ↔ _
        have hf : holdsCond (if c.workers = 0 then MPc.returned else MPc.sentinel 0) = false := by split <;> rfl
        rw [hf]; simpa [holdsCond] using this
      cond_worker := h.cond_worker
      sentinels := by
        have := h.sentinels; rw [hm] at this
        show nones s.queue + cnt gone s.wpc c.workers = sentinelsPut c (if c.workers = 0 then MPc.returned else MPc.sentinel 0)
        split
        · rename_i h0; simp only [sentinelsPut] at this ⊢; omega
        · simpa [sentinelsPut] using this
      sentinel_lt := by
        intro k hk
        have hk' : (if c.workers = 0 then MPc.returned else MPc.sentinel 0) = MPc.sentinel k := hk
        split at hk'
        · cases hk'
        · injection hk' with hk'; omega
      join_lt := by
        intro k hk
        have hk' : (if c.workers = 0 then MPc.returned else MPc.sentinel 0) = MPc.joinW k := hk
        split at hk' <;> cases hk'
      returned_exited := by
        intro hk w hw
        have hk' : (if c.workers = 0 then MPc.returned else MPc.sentinel 0) = MPc.returned := hk
        split at hk'
        · omega
        · cases hk'
      after_loop := by intro _; exact h.after_loop (by rw [hm]; rfl)
      after_join := by intro _; exact ⟨by intro t ht; rw [hq] at ht; simp at ht, hnoheld⟩
      waiting_iff := by
        constructor
        · intro hw; have := h.waiting_iff.1 hw; rw [hm] at this; cases this
        · intro hw; exact absurd hw hnw
      pass_work := by
        intro hk
        have hf : holdsCond (if c.workers = 0 then MPc.returned else MPc.sentinel 0) = false := by split <;> rfl
        rw [hf] at hk; cases hk
      sleep_work := by intro hk; exact absurd hk hnw
      pending_inflight := by
        intro t x ht' hu' hx hp
        rcases h.pending_inflight t x ht' hu' hx hp with hq' | hq' | hq'
        · exact Or.inl hq'
        · rw [hm] at hq'; cases hq'
        · exact Or.inr (Or.inr hq')
      consider_todo := by
        intro hk
        have hk' : (if c.workers = 0 then MPc.returned else MPc.sentinel 0) = MPc.consider := hk
        split at hk' <;> cases hk'
      spawn_todo := by
        intro k hk
        have hk' : (if c.workers = 0 then MPc.returned else MPc.sentinel 0) = MPc.spawn k := hk
        split at hk' <;> cases hk'
      acq_todo := by
        intro hk
        have hk' : (if c.workers = 0 then MPc.returned else MPc.sentinel 0) = MPc.acq := hk
        split at hk' <;> cases hk'
      wake_left := by intro hk; exact absurd hk hnw }
  | mSentinel k hm =>
    have hst := h.started; rw [hm] at hst
    have hk := h.sentinel_lt k hm
    have haj := h.after_join (by rw [hm]; rfl)
    have hnw : (if k + 1 < c.workers then MPc.sentinel (k + 1) else MPc.joinW 0) ≠ .wake := by split <;> simp
    exact {
      unstarted := h.unstarted
      started := by
        show StartedOK c (if k + 1 < c.workers then MPc.sentinel (k + 1) else MPc.joinW 0) s.wpc
        split <;> exact hst
      count := by
        show s.unfinished + 1 = (s.queue ++ [none]).length + cnt owes s.wpc c.workers
        have := h.count; simp; omega
      cond_master := by
        have := h.cond_master; rw [hm] at this
        show holdsCond (if k + 1 < c.workers then MPc.sentinel (k + 1) else MPc.joinW 0) = true ↔ _
        have hf : holdsCond (if k + 1 < c.workers then MPc.sentinel (k + 1) else MPc.joinW 0) = false := by split <;> rfl
        rw [hf]; simpa [holdsCond] using this
      cond_worker := h.cond_worker
      sentinels := by
        have := h.sentinels; rw [hm] at this
        show nones (s.queue ++ [none]) + cnt gone s.wpc c.workers =
          sentinelsPut c (if k + 1 < c.workers then MPc.sentinel (k + 1) else MPc.joinW 0)
        rw [nones_append_none]
        simp only [sentinelsPut] at this
        split
        · simp only [sentinelsPut]; omega
        · simp only [sentinelsPut]; omega
      sentinel_lt := by
        intro j hj
        have hj' : (if k + 1 < c.workers then MPc.sentinel (k + 1) else MPc.joinW 0) = MPc.sentinel j := hj
        split at hj'
        · injection hj' with hj'; omega
        · cases hj'
      join_lt := by
        intro j hj
        have hj' : (if k + 1 < c.workers then MPc.sentinel (k + 1) else MPc.joinW 0) = MPc.joinW j := hj
        split at hj'
        · cases hj'
        · injection hj' with hj'; subst hj'; exact ⟨by omega, by intro w hw; omega⟩
      returned_exited := by
        intro hj
        have hj' : (if k + 1 < c.workers then MPc.sentinel (k + 1) else MPc.joinW 0) = MPc.returned := hj
        split at hj' <;> cases hj'
      after_loop := by intro _; exact h.after_loop (by rw [hm]; rfl)
      after_join := by
        intro _
        refine ⟨?_, haj.2⟩
        intro t ht
        have : some t ∈ s.queue ++ [none] := ht
        rcases List.mem_append.1 this with hh | hh
        · exact haj.1 t hh
        · simp at hh
      waiting_iff := by
        constructor
        · intro hw; have := h.waiting_iff.1 hw; rw [hm] at this; cases this
        · intro hw; exact absurd hw hnw
      pass_work := by
        intro hj
        have hf : holdsCond (if k + 1 < c.workers then MPc.sentinel (k + 1) else MPc.joinW 0) = false := by split <;> rfl
        rw [hf] at hj; cases hj
      sleep_work := by intro hj; exact absurd hj hnw
      pending_inflight := by
        intro t x ht' hu' hx hp
        rcases h.pending_inflight t x ht' hu' hx hp with hq' | hq' | hq'
        · exact Or.inl (List.mem_append_left _ hq')
        · rw [hm] at hq'; cases hq'
        · exact Or.inr (Or.inr hq')
      consider_todo := by
        intro hj
        have hj' : (if k + 1 < c.workers then MPc.sentinel (k + 1) else MPc.joinW 0) = MPc.consider := hj
        split at hj' <;> cases hj'
      spawn_todo := by
        intro j hj
        have hj' : (if k + 1 < c.workers then MPc.sentinel (k + 1) else MPc.joinW 0) = MPc.spawn j := hj
        split at hj' <;> cases hj'
      acq_todo := by
        intro hj
        have hj' : (if k + 1 < c.workers then MPc.sentinel (k + 1) else MPc.joinW 0) = MPc.acq := hj
        split at hj' <;> cases hj'
      wake_left := by intro hj; exact absurd hj hnw }
  | mJoin k hm he =>
    have hst := h.started; rw [hm] at hst
    obtain ⟨hk, hex⟩ := h.join_lt k hm
    have hnw : (if k + 1 < c.workers then MPc.joinW (k + 1) else MPc.returned) ≠ .wake := by split <;> simp
    exact {
      unstarted := h.unstarted
      started := by
        show StartedOK c (if k + 1 < c.workers then MPc.joinW (k + 1) else MPc.returned) s.wpc
        split <;> exact hst
      count := h.count
      cond_master := by
        have := h.cond_master; rw [hm] at this
        show holdsCond (if k + 1 < c.workers then MPc.joinW (k + 1) else MPc.returned) = true ↔ _
        have hf : holdsCond (if k + 1 < c.workers then MPc.joinW (k + 1) else MPc.returned) = false := by split <;> rfl
        rw [hf]; simpa [holdsCond] using this
      cond_worker := h.cond_worker
      sentinels := by
        have := h.sentinels; rw [hm] at this
        show _ = sentinelsPut c (if k + 1 < c.workers then MPc.joinW (k + 1) else MPc.returned)
        split <;> simpa [sentinelsPut] using this
      sentinel_lt := by
        intro j hj
        have hj' : (if k + 1 < c.workers then MPc.joinW (k + 1) else MPc.returned) = MPc.sentinel j := hj
        split at hj' <;> cases hj'
      join_lt := by
        intro j hj
        have hj' : (if k + 1 < c.workers then MPc.joinW (k + 1) else MPc.returned) = MPc.joinW j := hj
        split at hj'
        · rename_i hlt
          injection hj' with hj'; subst hj'
          refine ⟨hlt, ?_⟩
          intro w hw
          by_cases e : w = k
          · subst e; exact he
          · exact hex w (by omega)
        · cases hj'
      returned_exited := by
        intro hj w hw
        have hj' : (if k + 1 < c.workers then MPc.joinW (k + 1) else MPc.returned) = MPc.returned := hj
        split at hj'
        · cases hj'
        · by_cases e : w = k
          · subst e; exact he
          · exact hex w (by omega)
      after_loop := by intro _; exact h.after_loop (by rw [hm]; rfl)
      after_join := by intro _; exact h.after_join (by rw [hm]; rfl)
      waiting_iff := by
        constructor
        · intro hw; have := h.waiting_iff.1 hw; rw [hm] at this; cases this
        · intro hw; exact absurd hw hnw
      pass_work := by
        intro hj
        have hf : holdsCond (if k + 1 < c.workers then MPc.joinW (k + 1) else MPc.returned) = false := by split <;> rfl
        rw [hf] at hj; cases hj
      sleep_work := by intro hj; exact absurd hj hnw
      pending_inflight := by
        intro t x ht' hu' hx hp
        rcases h.pending_inflight t x ht' hu' hx hp with hq' | hq' | hq'
        · exact Or.inl hq'
        · rw [hm] at hq'; cases hq'
        · exact Or.inr (Or.inr hq')
      consider_todo := by
        intro hj
        have hj' : (if k + 1 < c.workers then MPc.joinW (k + 1) else MPc.returned) = MPc.consider := hj
        split at hj' <;> cases hj'
      spawn_todo := by
        intro j hj
        have hj' : (if k + 1 < c.workers then MPc.joinW (k + 1) else MPc.returned) = MPc.spawn j := hj
        split at hj' <;> cases hj'
      acq_todo := by
        intro hj
        have hj' : (if k + 1 < c.workers then MPc.joinW (k + 1) else MPc.returned) = MPc.acq := hj
        split at hj' <;> cases hj'
      wake_left := by intro hj; exact absurd hj hnw }
  | wBegin w hw =>
    exact InvC_worker_simple h w .get (by rw [hw]; simp) (by rw [hw]; simp) (by simp) (by rw [hw]; rfl) (by rw [hw]; rfl)
      (by rw [hw]; simp) (by simp) (by rw [hw]; intro hh; cases hh) (by intro _ _; exact ⟨rfl, by simp⟩)
      s.env s.clock s.execCount s.seen
      (fun t x ht hu hx hp => pend_of_inflight h w .get (by rw [hw]; intro t hh; cases hh) t x ht hu hx hp)
  | wTimeStart w t hw =>
    exact InvC_worker_simple h w (.timeEnd t (s.clock + 1)) (by rw [hw]; simp) (by rw [hw]; simp) (by simp)
      (by rw [hw]; rfl) (by rw [hw]; rfl) (by rw [hw]; simp) (by simp) (by intro _; rfl)
      (by rw [hw]; intro _ hh; cases hh.1) s.env _ _ _
      (fun t' x ht hu hx hp => pend_of_inflight h w _ (by rw [hw]; intro t'' hh; exact hh) t' x ht hu hx hp)
  | wTimeEnd w t start hw =>
    have hpn : held (if (c.outOf t).hasUpdate then WPc.apply t start (s.clock + 1) else WPc.clocks t start (s.clock + 1)) = some t := by
      split <;> rfl
    exact InvC_worker_simple h w _ (by rw [hw]; simp) (by rw [hw]; simp) (by split <;> simp)
      (by rw [hw]; split <;> rfl) (by rw [hw]; split <;> rfl) (by rw [hw]; simp) (by split <;> simp)
      (by intro _; split <;> rfl) (by rw [hw]; intro _ hh; cases hh.1) s.env _ s.execCount s.seen
      (fun t' x ht hu hx hp => pend_of_inflight h w _ (by rw [hw]; intro t'' hh; injection hh with hh; subst hh; exact hpn) t' x ht hu hx hp)
  | wApply w t start stop hw =>
    refine InvC_worker_simple h w (.clocks t start stop) (by rw [hw]; simp) (by rw [hw]; simp) (by simp)
      (by rw [hw]; rfl) (by rw [hw]; rfl) (by rw [hw]; simp) (by simp) (by intro _; rfl)
      (by rw [hw]; intro _ hh; cases hh.1) _ s.clock s.execCount s.seen ?_
    intro t' x ht hu hx hp
    by_cases e : t' = t
    · subst e; exact Or.inr (Or.inr ⟨w, by rw [upd_same]; rfl⟩)
    · rw [entry_updEntry_other _ _ _ _ e] at hx
      exact pend_of_inflight h w _ (by rw [hw]; intro t'' hh; exact hh) t' x ht hu hx hp
  | wClocks w t start stop hw =>
    refine InvC_worker_simple h w (.status t) (by rw [hw]; simp) (by rw [hw]; simp) (by simp)
      (by rw [hw]; rfl) (by rw [hw]; rfl) (by rw [hw]; simp) (by simp) (by intro _; rfl)
      (by rw [hw]; intro _ hh; cases hh.1) _ s.clock s.execCount s.seen ?_
    intro t' x ht hu hx hp
    by_cases e : t' = t
    · subst e; exact Or.inr (Or.inr ⟨w, by rw [upd_same]; rfl⟩)
    · rw [entry_updEntry_other _ _ _ _ e] at hx
      exact pend_of_inflight h w _ (by rw [hw]; intro t'' hh; exact hh) t' x ht hu hx hp
  | wStatus w t hw =>
    refine InvC_worker_simple h w .taskDone (by rw [hw]; simp) (by rw [hw]; simp) (by simp)
      (by rw [hw]; rfl) (by rw [hw]; rfl) (by rw [hw]; simp) (by simp) (by intro _; rfl)
      (by rw [hw]; intro _ hh; cases hh.1) _ s.clock s.execCount s.seen ?_
    intro t' x ht hu hx hp
    by_cases e : t' = t
    · subst e
      obtain ⟨y, hy, hys, _⟩ := entry_setSt_same s.env t' (c.outOf t').status
      rw [hy] at hx; injection hx with hx; subst hx
      rw [hys] at hp
      have := Outcome.status_final (c.outOf t'); rw [hp] at this; cases this
    · rw [entry_setSt_other _ _ _ _ e] at hx
      rcases h.pending_inflight t' x ht hu hx hp with hq | hq | ⟨y, hy⟩
      · exact Or.inl hq
      · exact Or.inr (Or.inl hq)
      · refine Or.inr (Or.inr ⟨y, ?_⟩)
        by_cases e2 : y = w
        · subst e2; rw [hw] at hy; injection hy with hy; exact absurd hy.symm e
        · rw [upd_other _ _ _ _ e2]; exact hy
  | wGetTask w t rest hw hq =>
    have hwlt : w < c.workers := h.worker_lt (by rw [hw]; simp)
    have hcu := cnt_upd owes s.wpc w (.timeStart t) c.workers hwlt
    rw [hw] at hcu
    have hwork : HasWork c s → (∃ t', some t' ∈ rest) ∨ (∃ t', s.mpc = .put t') ∨
        ∃ x, x < c.workers ∧ willNotify (upd s.wpc w (.timeStart t) x) = true := by
      rintro (⟨t', ht'⟩ | hp | ⟨x, hx, hwn⟩)
      · rw [hq] at ht'
        rcases List.mem_cons.1 ht' with e | ht'
        · exact Or.inr (Or.inr ⟨w, hwlt, by rw [upd_same]; rfl⟩)
        · exact Or.inl ⟨t', ht'⟩
      · exact Or.inr (Or.inl hp)
      · refine Or.inr (Or.inr ⟨x, hx, ?_⟩)
        by_cases e : x = w
        · subst e; rw [upd_same]; rfl
        · rw [upd_other _ _ _ _ e]; exact hwn
    exact InvC_worker h w (.timeStart t) (by rw [hw]; simp) (by rw [hw]; simp) (by simp) s.env rest s.unfinished s.condOwner
      s.notified s.clock s.execCount s.seen
      (by have := h.count; rw [hq] at this; simp [owes] at hcu this ⊢; omega)
      h.cond_master
      (by intro x
          by_cases e : x = w
          · subst e; rw [upd_same]
            constructor
            · intro hh; cases hh
            · intro hh; have := (h.cond_worker x).2 hh; rw [hw] at this; cases this
          · rw [upd_other _ _ _ _ e]; exact h.cond_worker x)
      (by have := h.sentinels; rw [hq] at this
          rw [cnt_upd_same gone _ _ _ _ (by rw [hw]; rfl)]
          simpa [nones] using this)
      (by intro hj; exfalso; exact (h.after_join hj).1 t (by rw [hq]; simp))
      (by intro hc' hl; exact hwork (h.pass_work hc' hl))
      (by intro hc' hl; exact hwork (h.sleep_work hc' hl))
      (by intro t' x ht hu hx hp
          rcases h.pending_inflight t' x ht hu hx hp with hq' | hq' | ⟨y, hy⟩
          · rw [hq] at hq'
            rcases List.mem_cons.1 hq' with e | hq'
            · injection e with e; subst e; exact Or.inr (Or.inr ⟨w, by rw [upd_same]; rfl⟩)
            · exact Or.inl hq'
          · exact Or.inr (Or.inl hq')
          · refine Or.inr (Or.inr ⟨y, ?_⟩)
            by_cases e : y = w
            · subst e; rw [hw] at hy; cases hy
            · rw [upd_other _ _ _ _ e]; exact hy)
  | wGetSentinel w rest hw hq =>
    have hwlt : w < c.workers := h.worker_lt (by rw [hw]; simp)
    have hcu := cnt_upd owes s.wpc w .sentinelDone c.workers hwlt
    have hcg := cnt_upd gone s.wpc w .sentinelDone c.workers hwlt
    rw [hw] at hcu hcg
    have hwork : HasWork c s → (∃ t', some t' ∈ rest) ∨ (∃ t', s.mpc = .put t') ∨
        ∃ x, x < c.workers ∧ willNotify (upd s.wpc w .sentinelDone x) = true := by
      rintro (⟨t', ht'⟩ | hp | ⟨x, hx, hwn⟩)
      · rw [hq] at ht'
        rcases List.mem_cons.1 ht' with e | ht'
        · cases e
        · exact Or.inl ⟨t', ht'⟩
      · exact Or.inr (Or.inl hp)
      · refine Or.inr (Or.inr ⟨x, hx, ?_⟩)
        by_cases e : x = w
        · subst e; rw [hw] at hwn; cases hwn
        · rw [upd_other _ _ _ _ e]; exact hwn
    exact InvC_worker h w .sentinelDone (by rw [hw]; simp) (by rw [hw]; simp) (by simp) s.env rest s.unfinished s.condOwner
      s.notified s.clock s.execCount s.seen
      (by have := h.count; rw [hq] at this; simp [owes] at hcu this ⊢; omega)
      h.cond_master
      (by intro x
          by_cases e : x = w
          · subst e; rw [upd_same]
            constructor
            · intro hh; cases hh
            · intro hh; have := (h.cond_worker x).2 hh; rw [hw] at this; cases this
          · rw [upd_other _ _ _ _ e]; exact h.cond_worker x)
      (by have := h.sentinels; rw [hq] at this
          simp [nones, gone] at hcg this ⊢; omega)
      (by intro hj
          refine ⟨?_, rfl, by simp⟩
          intro t ht; exact (h.after_join hj).1 t (by rw [hq]; simp [ht]))
      (by intro hc' hl; exact hwork (h.pass_work hc' hl))
      (by intro hc' hl; exact hwork (h.sleep_work hc' hl))
      (by intro t' x ht hu hx hp
          rcases h.pending_inflight t' x ht hu hx hp with hq' | hq' | ⟨y, hy⟩
          · rw [hq] at hq'
            rcases List.mem_cons.1 hq' with e | hq'
            · cases e
            · exact Or.inl hq'
          · exact Or.inr (Or.inl hq')
          · refine Or.inr (Or.inr ⟨y, ?_⟩)
            by_cases e : y = w
            · subst e; rw [hw] at hy; cases hy
            · rw [upd_other _ _ _ _ e]; exact hy)
  | wTaskDone w hw hu =>
    have hwlt : w < c.workers := h.worker_lt (by rw [hw]; simp)
    have hcu := cnt_upd owes s.wpc w .cacq c.workers hwlt
    rw [hw] at hcu
    exact InvC_worker h w .cacq (by rw [hw]; simp) (by rw [hw]; simp) (by simp) s.env s.queue (s.unfinished - 1) s.condOwner
      s.notified s.clock s.execCount s.seen
      (by have := h.count; simp [owes] at hcu ⊢; omega)
      h.cond_master
      (by intro x
          by_cases e : x = w
          · subst e; rw [upd_same]
            constructor
            · intro hh; cases hh
            · intro hh; have := (h.cond_worker x).2 hh; rw [hw] at this; cases this
          · rw [upd_other _ _ _ _ e]; exact h.cond_worker x)
      (by rw [cnt_upd_same gone _ _ _ _ (by rw [hw]; rfl)]; exact h.sentinels)
      (by intro hj; exfalso; exact ((h.after_join hj).2 w).2 hw)
      (by intro hc' hl; exact hasWork_upd w .cacq (by intro _; rfl) (h.pass_work hc' hl))
      (by intro hc' hl; exact hasWork_upd w .cacq (by intro _; rfl) (h.sleep_work hc' hl))
      (fun t x ht hu' hx hp => pend_of_inflight h w .cacq (by rw [hw]; intro t hh; cases hh) t x ht hu' hx hp)
  | wCacq w hw hco =>
    exact InvC_worker h w .notify (by rw [hw]; simp) (by rw [hw]; simp) (by simp) s.env s.queue s.unfinished (some (w + 1))
      s.notified s.clock s.execCount s.seen
      (by rw [cnt_upd_same owes _ _ _ _ (by rw [hw]; rfl)]; exact h.count)
      (by have := h.cond_master; rw [hco] at this
          constructor
          · intro hh; exact absurd (this.1 hh) (by simp)
          · intro hh; injection hh with hh; omega)
      (by intro x
          by_cases e : x = w
          · subst e; rw [upd_same]; simp
          · rw [upd_other _ _ _ _ e]
            constructor
            · intro hh; have := (h.cond_worker x).1 hh; rw [hco] at this; cases this
            · intro hh; injection hh with hh; omega)
      (by rw [cnt_upd_same gone _ _ _ _ (by rw [hw]; rfl)]; exact h.sentinels)
      (by intro hj
          obtain ⟨a1, a2⟩ := h.after_join hj
          exact ⟨a1, rfl, by simp⟩)
      (by intro hc' _; have := h.cond_master.1 hc'; rw [hco] at this; cases this)
      (by intro hc' hl; exact hasWork_upd w .notify (by intro _; rfl) (h.sleep_work hc' hl))
      (fun t x ht hu' hx hp => pend_of_inflight h w .notify (by rw [hw]; intro t hh; cases hh) t x ht hu' hx hp)
  | wNotify w hw =>
    have hco : s.condOwner = some (w + 1) := (h.cond_worker w).1 hw
    exact InvC_worker h w .get (by rw [hw]; simp) (by rw [hw]; simp) (by simp) s.env s.queue s.unfinished none
      (s.notified || s.waiting) s.clock s.execCount s.seen
      (by rw [cnt_upd_same owes _ _ _ _ (by rw [hw]; rfl)]; exact h.count)
      (by have := h.cond_master; rw [hco] at this
          constructor
          · intro hh; have := this.1 hh; injection this with this; omega
          · intro hh; cases hh)
      (by intro x
          by_cases e : x = w
          · subst e; rw [upd_same]; simp
          · rw [upd_other _ _ _ _ e]
            constructor
            · intro hh; have := (h.cond_worker x).1 hh; rw [hco] at this; injection this with this; omega
            · intro hh; cases hh)
      (by rw [cnt_upd_same gone _ _ _ _ (by rw [hw]; rfl)]; exact h.sentinels)
      (by intro hj
          obtain ⟨a1, a2⟩ := h.after_join hj
          exact ⟨a1, rfl, by simp⟩)
      (by intro hc' _; have := h.cond_master.1 hc'; rw [hco] at this; injection this with this; omega)
      (by intro hc' hn
          have := h.waiting_iff.2 hc'
          rw [this] at hn; simp at hn)
      (fun t x ht hu' hx hp => pend_of_inflight h w .get (by rw [hw]; intro t hh; cases hh) t x ht hu' hx hp)
  | wSentinelDone w hw hu =>
    have hwlt : w < c.workers := h.worker_lt (by rw [hw]; simp)
    have hcu := cnt_upd owes s.wpc w .exited c.workers hwlt
    rw [hw] at hcu
    exact InvC_worker h w .exited (by rw [hw]; simp) (by rw [hw]; simp) (by simp) s.env s.queue (s.unfinished - 1) s.condOwner
      s.notified s.clock s.execCount s.seen
      (by have := h.count; simp [owes] at hcu ⊢; omega)
      h.cond_master
      (by intro x
          by_cases e : x = w
          · subst e; rw [upd_same]
            constructor
            · intro hh; cases hh
            · intro hh; have := (h.cond_worker x).2 hh; rw [hw] at this; cases this
          · rw [upd_other _ _ _ _ e]; exact h.cond_worker x)
      (by rw [cnt_upd_same gone _ _ _ _ (by rw [hw]; rfl)]; exact h.sentinels)
      (by intro hj
          obtain ⟨a1, a2⟩ := h.after_join hj
          exact ⟨a1, rfl, by simp⟩)
      (by intro hc' hl; exact hasWork_upd w .exited (by rw [hw]; intro hh; cases hh) (h.pass_work hc' hl))
      (by intro hc' hl; exact hasWork_upd w .exited (by rw [hw]; intro hh; cases hh) (h.sleep_work hc' hl))
      (fun t x ht hu' hx hp => pend_of_inflight h w .exited (by rw [hw]; intro t hh; cases hh) t x ht hu' hx hp)

end Sched
