import Proofs.Diag
import Mathlib.Data.List.Forall2
import Mathlib.Data.List.Nodup
/-! The by-labels summary (C18): each row counts exactly the results that carry the requested labels with the row's
values, every such result is in the row of its combination, and no combination has two rows. -/
set_option linter.unusedVariables false
namespace Diag
open Browser (Val Index idxGet idxKey valGet valAdd idxAdd)

/-! ### association lists -/

def alGet {κ ν : Type} [DecidableEq κ] : List (κ × ν) → κ → Option ν
  | [], _ => none
  | (k', v) :: r, k => if k' = k then some v else alGet r k

theorem idxKey_eq_alGet (idx : Index) (k : String) : idxKey idx k = alGet idx k := by
  induction idx with
  | nil => rfl
  | cons hd tl ih => obtain ⟨w, ws⟩ := hd; simp only [idxKey, alGet, ih]

theorem valGet_eq_alGet (vs : List (Val × List Nat)) (v : Val) : valGet vs v = alGet vs v := by
  induction vs with
  | nil => rfl
  | cons hd tl ih => obtain ⟨w, ws⟩ := hd; simp only [valGet, alGet, ih]

section
variable {κ ν ν' : Type} [DecidableEq κ]

theorem alGet_none_of_not_mem (l : List (κ × ν)) (k : κ) (h : k ∉ l.map (·.1)) : alGet l k = none := by
  induction l with
  | nil => rfl
  | cons hd tl ih =>
    obtain ⟨w, ws⟩ := hd
    simp only [List.map_cons, List.mem_cons, not_or] at h
    simp only [alGet]
    rw [if_neg (fun e => h.1 e.symm)]
    exact ih h.2

theorem alGet_of_mem (l : List (κ × ν)) (hnd : (l.map (·.1)).Nodup) (k : κ) (v : ν) (h : (k, v) ∈ l) :
    alGet l k = some v := by
  induction l with
  | nil => cases h
  | cons hd tl ih =>
    obtain ⟨w, ws⟩ := hd
    simp only [List.map_cons, List.nodup_cons] at hnd
    simp only [alGet]
    rcases List.mem_cons.1 h with e | h
    · cases e; simp
    · have : w ≠ k := by
        intro e; subst e
        exact hnd.1 (List.mem_map.2 ⟨(w, v), h, rfl⟩)
      rw [if_neg this]
      exact ih hnd.2 h

theorem mem_of_alGet (l : List (κ × ν)) (k : κ) (v : ν) (h : alGet l k = some v) : (k, v) ∈ l := by
  induction l with
  | nil => cases h
  | cons hd tl ih =>
    obtain ⟨w, ws⟩ := hd
    simp only [alGet] at h
    by_cases e : w = k
    · rw [if_pos e] at h; cases h; subst e; simp
    · rw [if_neg e] at h; exact List.mem_cons_of_mem _ (ih h)

theorem keys_filterMap_sublist (l : List (κ × ν)) (f : κ → ν → Option ν') :
    ((l.filterMap fun x => (f x.1 x.2).map (x.1, ·)).map (·.1)).Sublist (l.map (·.1)) := by
  induction l with
  | nil => simp
  | cons hd tl ih =>
    obtain ⟨w, ws⟩ := hd
    simp only [List.filterMap_cons, List.map_cons]
    cases hf : f w ws with
    | none => simp only [Option.map_none]; exact List.Sublist.cons _ ih
    | some y => simp only [Option.map_some, List.map_cons]; exact List.Sublist.cons_cons _ ih

theorem alGet_filterMap (l : List (κ × ν)) (hnd : (l.map (·.1)).Nodup) (f : κ → ν → Option ν') (k : κ) :
    alGet (l.filterMap fun x => (f x.1 x.2).map (x.1, ·)) k = (alGet l k).bind (f k) := by
  induction l with
  | nil => rfl
  | cons hd tl ih =>
    obtain ⟨w, ws⟩ := hd
    simp only [List.map_cons, List.nodup_cons] at hnd
    simp only [List.filterMap_cons, alGet]
    by_cases e : w = k
    · subst e
      rw [if_pos rfl]
      cases hf : f w ws with
      | none =>
        simp only [Option.map_none, Option.bind_some, hf]
        apply alGet_none_of_not_mem
        intro hm
        exact hnd.1 ((keys_filterMap_sublist tl f).subset hm)
      | some y => simp [alGet, hf]
    · rw [if_neg e]
      cases hf : f w ws with
      | none => simp only [Option.map_none]; exact ih hnd.2
      | some y => simp only [Option.map_some, alGet, if_neg e]; exact ih hnd.2
end

/-! ### well-formed indexes -/

def VsWF (vs : List (Val × List Nat)) : Prop :=
  (vs.map (·.1)).Nodup ∧ ∀ v ps, (v, ps) ∈ vs → ps.Nodup ∧ ps ≠ []

def IdxWF (idx : Index) : Prop :=
  (idx.map (·.1)).Nodup ∧ ∀ k vs, (k, vs) ∈ idx → VsWF vs

theorem keys_valAdd (vs : List (Val × List Nat)) (v : Val) (p : Nat) :
    (valAdd vs v p).map (·.1) = if v ∈ vs.map (·.1) then vs.map (·.1) else vs.map (·.1) ++ [v] := by
  induction vs with
  | nil => simp [valAdd]
  | cons hd tl ih =>
    obtain ⟨w, ps⟩ := hd
    simp only [valAdd]
    by_cases hw : w = v
    · subst hw; simp
    · have : ¬ v = w := fun e => hw e.symm
      simp only [hw, if_false, List.map_cons, ih, List.mem_cons, this, false_or]
      split <;> simp

theorem vsWF_valAdd (vs : List (Val × List Nat)) (v : Val) (p : Nat) (h : VsWF vs) : VsWF (valAdd vs v p) := by
  constructor
  · rw [keys_valAdd]
    split
    · exact h.1
    · rename_i hv
      rw [List.nodup_append]
      exact ⟨h.1, by simp, by intro a ha b hb; simp at hb; subst hb; intro e; subst e; exact hv ha⟩
  · induction vs with
    | nil =>
      intro w ps hm
      simp only [valAdd, List.mem_singleton, Prod.mk.injEq] at hm
      obtain ⟨_, rfl⟩ := hm
      simp
    | cons hd tl ih =>
      obtain ⟨w0, ps0⟩ := hd
      have htl : VsWF tl := ⟨(List.nodup_cons.1 h.1).2, fun v' ps' hm => h.2 v' ps' (List.mem_cons_of_mem _ hm)⟩
      intro w ps hm
      simp only [valAdd] at hm
      by_cases hw : w0 = v
      · rw [if_pos hw] at hm
        rcases List.mem_cons.1 hm with e | hm
        · cases e
          have h0 := h.2 w0 ps0 (by simp)
          by_cases hp : p ∈ ps0
          · rw [if_pos hp]; exact h0
          · rw [if_neg hp]
            refine ⟨?_, by simp⟩
            rw [List.nodup_append]
            exact ⟨h0.1, by simp, by intro a ha b hb; simp at hb; subst hb; intro e; subst e; exact hp ha⟩
        · exact h.2 w ps (List.mem_cons_of_mem _ hm)
      · rw [if_neg hw] at hm
        rcases List.mem_cons.1 hm with e | hm
        · cases e; exact h.2 w0 ps0 (by simp)
        · exact ih htl w ps hm

theorem keys_idxAdd (idx : Index) (k : String) (v : Val) (p : Nat) :
    (idxAdd idx k v p).map (·.1) = if k ∈ idx.map (·.1) then idx.map (·.1) else idx.map (·.1) ++ [k] := by
  induction idx with
  | nil => simp [idxAdd]
  | cons hd tl ih =>
    obtain ⟨w, ws⟩ := hd
    simp only [idxAdd]
    by_cases hw : w = k
    · subst hw; simp
    · have : ¬ k = w := fun e => hw e.symm
      simp only [hw, if_false, List.map_cons, ih, List.mem_cons, this, false_or]
      split <;> simp

theorem idxWF_idxAdd (idx : Index) (k : String) (v : Val) (p : Nat) (h : IdxWF idx) : IdxWF (idxAdd idx k v p) := by
  constructor
  · rw [keys_idxAdd]
    split
    · exact h.1
    · rename_i hv
      rw [List.nodup_append]
      exact ⟨h.1, by simp, by intro a ha b hb; simp at hb; subst hb; intro e; subst e; exact hv ha⟩
  · induction idx with
    | nil =>
      intro w ws hm
      simp only [idxAdd, List.mem_singleton, Prod.mk.injEq] at hm
      obtain ⟨_, rfl⟩ := hm
      exact ⟨by simp, fun v' ps' hm' => by simp at hm'; obtain ⟨_, rfl⟩ := hm'; simp⟩
    | cons hd tl ih =>
      obtain ⟨w0, ws0⟩ := hd
      have htl : IdxWF tl := ⟨(List.nodup_cons.1 h.1).2, fun k' vs' hm => h.2 k' vs' (List.mem_cons_of_mem _ hm)⟩
      intro w ws hm
      simp only [idxAdd] at hm
      by_cases hw : w0 = k
      · rw [if_pos hw] at hm
        rcases List.mem_cons.1 hm with e | hm
        · cases e; exact vsWF_valAdd ws0 v p (h.2 w0 ws0 (by simp))
        · exact h.2 w ws (List.mem_cons_of_mem _ hm)
      · rw [if_neg hw] at hm
        rcases List.mem_cons.1 hm with e | hm
        · cases e; exact h.2 w0 ws0 (by simp)
        · exact ih htl w ws hm

theorem idxWF_indexDict (d : LDict) (idx : Index) (p : Nat) (h : IdxWF idx) : IdxWF (indexDict idx p d) := by
  unfold indexDict
  induction d generalizing idx with
  | nil => exact h
  | cons hd tl ih => exact ih _ (idxWF_idxAdd idx hd.1 hd.2 p h)

theorem idxWF_buildIndexFrom (lod : List LDict) (idx : Index) (p : Nat) (h : IdxWF idx) :
    IdxWF (buildIndexFrom idx p lod) := by
  induction lod generalizing idx p with
  | nil => exact h
  | cons hd tl ih => exact ih _ _ (idxWF_indexDict hd idx p h)

theorem idxWF_nil : IdxWF [] := ⟨by simp, fun k vs hm => by cases hm⟩

/-! ### `keep_only` -/

def keepVals (ids : List Nat) (v : Val) (ps : List Nat) : Option (List Nat) :=
  if ps.filter (· ∈ ids) = [] then none else some (ps.filter (· ∈ ids))

def keepVs (ids : List Nat) (vs : List (Val × List Nat)) : List (Val × List Nat) :=
  vs.filterMap fun x => (keepVals ids x.1 x.2).map (x.1, ·)

def keepKey (ids : List Nat) (k : String) (vs : List (Val × List Nat)) : Option (List (Val × List Nat)) :=
  if keepVs ids vs = [] then none else some (keepVs ids vs)

theorem keepOnly_eq (idx : Index) (ids : List Nat) (h : ids ≠ []) :
    keepOnly idx ids = idx.filterMap fun x => (keepKey ids x.1 x.2).map (x.1, ·) := by
  unfold keepOnly
  rw [if_neg h]
  congr 1
  funext x
  obtain ⟨k, vs⟩ := x
  have hvs : (vs.filterMap fun (x : Val × List Nat) =>
      match x with
      | (v, ps) => if ps.filter (· ∈ ids) = [] then none else some (v, ps.filter (· ∈ ids))) = keepVs ids vs := by
    unfold keepVs
    congr 1
    funext y
    obtain ⟨v, ps⟩ := y
    simp only [keepVals]
    split <;> simp
  simp only [hvs, keepKey]
  split <;> simp

theorem idxWF_keepOnly (idx : Index) (ids : List Nat) (h : IdxWF idx) : IdxWF (keepOnly idx ids) := by
  by_cases hids : ids = []
  · unfold keepOnly; rw [if_pos hids]; exact idxWF_nil
  · rw [keepOnly_eq idx ids hids]
    constructor
    · exact (keys_filterMap_sublist idx (keepKey ids)).nodup h.1
    · intro k vs' hm
      obtain ⟨⟨k0, vs0⟩, hin, hsome⟩ := List.mem_filterMap.1 hm
      simp only [keepKey] at hsome
      split at hsome
      · cases hsome
      · simp only [Option.map_some, Option.some.injEq, Prod.mk.injEq] at hsome
        obtain ⟨rfl, rfl⟩ := hsome
        have h0 := h.2 k0 vs0 hin
        constructor
        · exact (keys_filterMap_sublist vs0 (keepVals ids)).nodup h0.1
        · intro v ps hv
          obtain ⟨⟨v0, ps0⟩, hin2, hs2⟩ := List.mem_filterMap.1 hv
          simp only [keepVals] at hs2
          split at hs2
          · cases hs2
          · rename_i hne
            simp only [Option.map_some, Option.some.injEq, Prod.mk.injEq] at hs2
            obtain ⟨rfl, rfl⟩ := hs2
            exact ⟨(h0.2 v0 ps0 hin2).1.filter _, hne⟩

theorem mem_idxGet_keepOnly (idx : Index) (ids : List Nat) (h : IdxWF idx) (k : String) (v : Val) (p : Nat) :
    p ∈ idxGet (keepOnly idx ids) k v ↔ p ∈ idxGet idx k v ∧ p ∈ ids := by
  by_cases hids : ids = []
  · unfold keepOnly; rw [if_pos hids]; subst hids; simp [Browser.idxGet_nil]
  · rw [keepOnly_eq idx ids hids]
    unfold idxGet
    rw [idxKey_eq_alGet, idxKey_eq_alGet, alGet_filterMap idx h.1 (keepKey ids) k]
    cases hk : alGet idx k with
    | none => simp
    | some vs =>
      have hvs : VsWF vs := h.2 k vs (mem_of_alGet idx k vs hk)
      simp only [Option.bind_some, keepKey]
      have hlook : alGet (keepVs ids vs) v = (alGet vs v).bind (keepVals ids v) :=
        alGet_filterMap vs hvs.1 (keepVals ids) v
      by_cases hempty : keepVs ids vs = []
      · rw [if_pos hempty]
        simp only [List.not_mem_nil, false_iff, not_and]
        intro hp hpi
        rw [valGet_eq_alGet] at hp
        rw [hempty] at hlook
        cases hv : alGet vs v with
        | none => rw [hv] at hp; simp at hp
        | some ps =>
          rw [hv] at hp hlook
          simp only [alGet, Option.bind_some, keepVals] at hlook
          split at hlook
          · rename_i hf
            have : p ∈ ps.filter (· ∈ ids) := List.mem_filter.2 ⟨by simpa using hp, by simpa using hpi⟩
            rw [hf] at this; cases this
          · cases hlook
      · rw [if_neg hempty]
        simp only []
        rw [valGet_eq_alGet, valGet_eq_alGet, hlook]
        cases hv : alGet vs v with
        | none => simp
        | some ps =>
          simp only [Option.bind_some, keepVals]
          split
          · rename_i hf
            simp only [Option.getD_none, List.not_mem_nil, Option.getD_some, false_iff, not_and]
            intro hp hpi
            have : p ∈ ps.filter (· ∈ ids) := List.mem_filter.2 ⟨hp, by simpa using hpi⟩
            rw [hf] at this; cases this
          · simp [List.mem_filter]

/-! ### the recursive loop over the labels -/

/-- the result at position `p` carries the labels `ls` with the values `vals` -/
def Carries (lod : List LDict) (p : Nat) (ls : List String) (vals : List Val) : Prop :=
  ∃ d, lod[p]? = some d ∧ List.Forall₂ (fun l v => (l, v) ∈ d) ls vals

/-- the index describes exactly the results of `lod` selected by `S` -/
def Sem (lod : List LDict) (idx : Index) (S : Nat → Prop) : Prop :=
  ∀ k v p, p ∈ idxGet idx k v ↔ S p ∧ ∃ d, lod[p]? = some d ∧ (k, v) ∈ d

theorem sem_keepOnly {lod : List LDict} {idx : Index} {S : Nat → Prop} (hwf : IdxWF idx) (hs : Sem lod idx S)
    (ps : List Nat) : Sem lod (keepOnly idx ps) (fun p => S p ∧ p ∈ ps) := by
  intro k v p
  rw [mem_idxGet_keepOnly idx ps hwf, hs k v p]
  constructor
  · rintro ⟨⟨a, b⟩, c⟩; exact ⟨⟨a, c⟩, b⟩
  · rintro ⟨⟨a, c⟩, b⟩; exact ⟨⟨a, b⟩, c⟩

theorem idxGet_of_mem {idx : Index} (hwf : IdxWF idx) {l : String} {vs : List (Val × List Nat)}
    (hk : idxKey idx l = some vs) {v : Val} {ps : List Nat} (hm : (v, ps) ∈ vs) : idxGet idx l v = ps := by
  unfold idxGet
  rw [hk]
  have hvs : VsWF vs := hwf.2 l vs (idxKey_mem hk)
  simp only []
  rw [valGet_eq_alGet, alGet_of_mem vs hvs.1 v ps hm]
  rfl

theorem mem_of_idxGet {idx : Index} {l : String} {v : Val} {p : Nat} (h : p ∈ idxGet idx l v) :
    ∃ vs ps, idxKey idx l = some vs ∧ (v, ps) ∈ vs ∧ p ∈ ps := by
  unfold idxGet at h
  cases hk : idxKey idx l with
  | none => rw [hk] at h; cases h
  | some vs =>
    rw [hk] at h
    simp only [] at h
    cases hv : valGet vs v with
    | none => rw [hv] at h; cases h
    | some ps =>
      rw [hv] at h
      rw [valGet_eq_alGet] at hv
      exact ⟨vs, ps, rfl, mem_of_alGet vs v ps hv, h⟩

/-- the labels of a row extend the prefix by one value per requested label -/
theorem rloop_labels_prefix (rok rko : List Nat) :
    ∀ (labels : List String) (idx : Index) (plab : List Val), ∀ r ∈ rloop rok rko labels idx plab,
      ∃ vals, r.labels = plab ++ vals ∧ vals.length = labels.length := by
  intro labels
  induction labels with
  | nil => intro idx plab r hr; simp [rloop] at hr
  | cons l rest ih =>
    intro idx plab r hr
    cases rest with
    | nil =>
      simp only [rloop] at hr
      cases hk : idxKey idx l with
      | none => simp [hk] at hr
      | some vs =>
        simp only [hk, List.mem_map] at hr
        obtain ⟨⟨v, ps⟩, _, rfl⟩ := hr
        exact ⟨[v], rfl, rfl⟩
    | cons l2 rest2 =>
      simp only [rloop] at hr
      cases hk : idxKey idx l with
      | none => simp [hk] at hr
      | some vs =>
        simp only [hk, List.mem_flatMap] at hr
        obtain ⟨⟨v, ps⟩, _, hr⟩ := hr
        obtain ⟨vals, e, hl⟩ := ih (keepOnly idx ps) (plab ++ [v]) r hr
        exact ⟨v :: vals, by rw [e]; simp, by simp [hl]⟩

theorem rloop_exact (lod : List LDict) (rok rko : List Nat) :
    ∀ (labels : List String) (idx : Index) (plab : List Val) (S : Nat → Prop), IdxWF idx → Sem lod idx S →
      (∀ r ∈ rloop rok rko labels idx plab, r.ids.Nodup ∧ ∃ vals, r.labels = plab ++ vals ∧
        ∀ p, p ∈ r.ids ↔ S p ∧ Carries lod p labels vals) ∧
      (labels ≠ [] → ∀ p vals, S p → Carries lod p labels vals →
        ∃ r ∈ rloop rok rko labels idx plab, r.labels = plab ++ vals ∧ p ∈ r.ids) ∧
      ((rloop rok rko labels idx plab).map (·.labels)).Nodup := by
  intro labels
  induction labels with
  | nil => intro idx plab S _ _; simp [rloop]
  | cons l rest ih =>
    intro idx plab S hwf hsem
    cases rest with
    | nil =>
      cases hk : idxKey idx l with
      | none =>
        simp only [rloop, hk]
        refine ⟨by simp, ?_, by simp⟩
        intro _ p vals hS ⟨d, hd, hf⟩
        cases hf with
        | cons h1 h2 =>
          rename_i v vs'
          have hp : p ∈ idxGet idx l v := (hsem l v p).2 ⟨hS, d, hd, h1⟩
          obtain ⟨vs, ps, hk', _, _⟩ := mem_of_idxGet hp
          rw [hk] at hk'; cases hk'
      | some vs =>
        have hvs : VsWF vs := hwf.2 l vs (idxKey_mem hk)
        simp only [rloop, hk]
        refine ⟨?_, ?_, ?_⟩
        · intro r hr
          obtain ⟨⟨v, ps⟩, hin, rfl⟩ := List.mem_map.1 hr
          refine ⟨(hvs.2 v ps hin).1, [v], rfl, ?_⟩
          intro p
          show p ∈ ps ↔ _
          rw [← idxGet_of_mem hwf hk hin, hsem l v p]
          constructor
          · rintro ⟨a, d, hd, hm⟩; exact ⟨a, d, hd, List.Forall₂.cons hm List.Forall₂.nil⟩
          · rintro ⟨a, d, hd, hf⟩
            cases hf with
            | cons h1 h2 => exact ⟨a, d, hd, h1⟩
        · intro _ p vals hS ⟨d, hd, hf⟩
          cases hf with
          | cons h1 h2 =>
            rename_i v vs'
            cases h2
            have hp : p ∈ idxGet idx l v := (hsem l v p).2 ⟨hS, d, hd, h1⟩
            obtain ⟨vs0, ps, hk', hin, hpp⟩ := mem_of_idxGet hp
            rw [hk] at hk'; cases hk'
            exact ⟨mkRow plab rok rko v ps, List.mem_map.2 ⟨(v, ps), hin, rfl⟩, rfl, hpp⟩
        · rw [List.map_map]
          have : ((fun r : Row => r.labels) ∘ fun (x : Val × List Nat) => mkRow plab rok rko x.1 x.2) =
              (fun v => plab ++ [v]) ∘ (·.1) := by funext x; rfl
          have e2 : (vs.map ((fun r : Row => r.labels) ∘ fun (x : Val × List Nat) =>
              match x with | (v, ps) => mkRow plab rok rko v ps)) = (vs.map (·.1)).map (fun v => plab ++ [v]) := by
            rw [List.map_map]; apply List.map_congr_left; intro x _; rfl
          rw [e2]
          apply List.Nodup.map _ hvs.1
          intro a b e
          simpa using e
    | cons l2 rest2 =>
      cases hk : idxKey idx l with
      | none =>
        simp only [rloop, hk]
        refine ⟨by simp, ?_, by simp⟩
        intro _ p vals hS ⟨d, hd, hf⟩
        cases hf with
        | cons h1 h2 =>
          rename_i v vs'
          have hp : p ∈ idxGet idx l v := (hsem l v p).2 ⟨hS, d, hd, h1⟩
          obtain ⟨vs, ps, hk', _, _⟩ := mem_of_idxGet hp
          rw [hk] at hk'; cases hk'
      | some vs =>
        have hvs : VsWF vs := hwf.2 l vs (idxKey_mem hk)
        simp only [rloop, hk]
        have sub : ∀ v ps, (v, ps) ∈ vs → _ := fun v ps hin =>
          ih (keepOnly idx ps) (plab ++ [v]) (fun p => S p ∧ p ∈ ps) (idxWF_keepOnly idx ps hwf)
            (sem_keepOnly hwf hsem ps)
        have hps : ∀ v ps, (v, ps) ∈ vs → ∀ p, p ∈ ps ↔ S p ∧ ∃ d, lod[p]? = some d ∧ (l, v) ∈ d := by
          intro v ps hin p
          rw [← idxGet_of_mem hwf hk hin]
          exact hsem l v p
        refine ⟨?_, ?_, ?_⟩
        · intro r hr
          obtain ⟨⟨v, ps⟩, hin, hr⟩ := List.mem_flatMap.1 hr
          obtain ⟨hnd, vals, hlab, hmem⟩ := (sub v ps hin).1 r hr
          refine ⟨hnd, v :: vals, by rw [hlab]; simp, ?_⟩
          intro p
          rw [hmem p]
          constructor
          · rintro ⟨⟨hS, hpp⟩, d, hd, hf⟩
            obtain ⟨_, d', hd', hm⟩ := (hps v ps hin p).1 hpp
            rw [hd] at hd'; cases hd'
            exact ⟨hS, d, hd, List.Forall₂.cons hm hf⟩
          · rintro ⟨hS, d, hd, hf⟩
            cases hf with
            | cons h1 h2 => exact ⟨⟨hS, (hps v ps hin p).2 ⟨hS, d, hd, h1⟩⟩, d, hd, h2⟩
        · intro _ p vals hS ⟨d, hd, hf⟩
          cases hf with
          | cons h1 h2 =>
            rename_i v vals'
            have hp : p ∈ idxGet idx l v := (hsem l v p).2 ⟨hS, d, hd, h1⟩
            obtain ⟨vs0, ps, hk', hin, hpp⟩ := mem_of_idxGet hp
            rw [hk] at hk'; cases hk'
            obtain ⟨r, hr, hlab, hpr⟩ := (sub v ps hin).2.1 (by simp) p vals' ⟨hS, hpp⟩ ⟨d, hd, h2⟩
            exact ⟨r, List.mem_flatMap.2 ⟨(v, ps), hin, hr⟩, by rw [hlab]; simp, hpr⟩
        · rw [List.map_flatMap, List.nodup_flatMap]
          constructor
          · intro x hx
            obtain ⟨v, ps⟩ := x
            exact (sub v ps hx).2.2
          · have hpw : vs.Pairwise (fun a b => a.1 ≠ b.1) := by
              have := hvs.1
              rw [List.Nodup, List.pairwise_map] at this
              exact this
            refine hpw.imp ?_
            intro a b hab
            obtain ⟨va, psa⟩ := a
            obtain ⟨vb, psb⟩ := b
            intro x hxa hxb
            obtain ⟨ra, hra, rfl⟩ := List.mem_map.1 hxa
            obtain ⟨rb, hrb, e⟩ := List.mem_map.1 hxb
            obtain ⟨valsa, ea, _⟩ := rloop_labels_prefix rok rko _ _ _ ra hra
            obtain ⟨valsb, eb, _⟩ := rloop_labels_prefix rok rko _ _ _ rb hrb
            rw [ea, eb] at e
            simp only [List.append_assoc, List.append_cancel_left_eq, List.cons_append, List.nil_append,
              List.cons.injEq] at e
            exact hab e.1.symm

end Diag
