import Proofs.DepGraphDependsRec
/-! `dependencies(node, recurse=True)` (C16) **always returns** — on cyclic graphs too.

The work list of the Python loop is a stack (`queue.pop()` takes the last element) that may hold the same position
several times, and a position that is popped again is processed again: nothing in the text of the loop bounds the
number of rounds.  The bound comes from the stack discipline (`SInv.lifo`): once a position has been processed, each
of its successors is either processed already or lies *above* every remaining copy of that position, so by the time a
second copy is popped all its successors have been seen and it pushes nothing.  Hence the measure
`(size - |seen|) * (size + 1) + |queue|` decreases at every round: a first visit adds one position to `seen` and
pushes at most `size` successors, a repeated visit only shortens the stack.  The budget `size * size + size + 1` of the
model is never exhausted (`depsLoop_total`), so the `recursion` outcome of `Model/DepGraph.lean` is unreachable and
`dependenciesRec` is a total function of the graph (`dependenciesRec_total`). -/
set_option linter.unusedVariables false
namespace DG
open Relation

structure SInv (g : G) (queue seen : List Nat) : Prop where
  nodup : seen.Nodup
  seenlt : ∀ u ∈ seen, u < g.size
  qlt : ∀ u ∈ queue, u < g.size
  lifo : ∀ a u b, queue = a ++ u :: b → u ∈ seen → ∀ w, PEdge g u w → w ∈ seen ∨ w ∈ b

theorem sadd_nodup {s : List Nat} (h : s.Nodup) (x : Nat) : (sadd s x).Nodup := by
  unfold sadd; split
  · exact h
  · rename_i hx
    exact List.nodup_append.2 ⟨h, by simp, by intro a ha b hb; simp at hb; subst hb; intro e; subst e; exact hx ha⟩

theorem sadd_length (s : List Nat) (x : Nat) : (sadd s x).length = if x ∈ s then s.length else s.length + 1 := by
  unfold sadd; split <;> simp

theorem eraseDups_filter_length_le {g : G} (hg : GInv g) (p : Nat) (q : Nat → Bool) :
    ((edgesP g p).eraseDups.filter q).length ≤ g.size := by
  refine Nat.le_trans (List.length_filter_le _ _) ?_
  apply nodup_lt_length (UseM.nodup_eraseDups _)
  intro u hu
  exact (pedge_lt hg (List.mem_eraseDups.1 hu)).2

theorem sinv_step {g : G} (hg : GInv g) {rest seen : List Nat} {nxt : Nat}
    (hinv : SInv g (rest ++ [nxt]) seen) :
    SInv g (rest ++ (edgesP g nxt).eraseDups.filter (· ∉ sadd seen nxt)) (sadd seen nxt) := by
  have hnlt : nxt < g.size := hinv.qlt nxt (by simp)
  have hnew : ∀ w, w ∈ (edgesP g nxt).eraseDups.filter (· ∉ sadd seen nxt) ↔ PEdge g nxt w ∧ w ∉ sadd seen nxt := by
    intro w; simp [List.mem_filter, List.mem_eraseDups, PEdge]
  refine ⟨sadd_nodup hinv.nodup nxt, ?_, ?_, ?_⟩
  · intro u hu
    rcases (mem_sadd seen nxt u).1 hu with hu | hu
    · exact hinv.seenlt u hu
    · subst hu; exact hnlt
  · intro u hu
    rcases List.mem_append.1 hu with hu | hu
    · exact hinv.qlt u (by simp [hu])
    · exact (pedge_lt hg ((hnew u).1 hu).1).2
  · intro a u b hsplit hu w huw
    rcases List.append_eq_append_iff.1 hsplit with ⟨c', h1, h2⟩ | ⟨a', h1, h2⟩
    · -- the split falls inside the pushed successors: they are not in `seen`
      have : u ∈ (edgesP g nxt).eraseDups.filter (· ∉ sadd seen nxt) := by rw [h2]; simp
      exact absurd hu ((hnew u).1 this).2
    · cases a' with
      | nil =>
        simp only [List.nil_append] at h2
        have : u ∈ (edgesP g nxt).eraseDups.filter (· ∉ sadd seen nxt) := by rw [← h2]; simp
        exact absurd hu ((hnew u).1 this).2
      | cons u' a'' =>
        -- the split falls inside `rest = a ++ u :: a''`
        simp only [List.cons_append, List.cons.injEq] at h2
        obtain ⟨e, hb⟩ := h2
        subst e
        by_cases hus : u ∈ seen
        · have hold := hinv.lifo a u (a'' ++ [nxt]) (by rw [h1]; simp) hus w huw
          rcases hold with hold | hold
          · exact Or.inl ((mem_sadd _ _ _).2 (Or.inl hold))
          · rcases List.mem_append.1 hold with hold | hold
            · exact Or.inr (by rw [hb]; exact List.mem_append.2 (Or.inl hold))
            · simp at hold; subst hold; exact Or.inl ((mem_sadd _ _ _).2 (Or.inr rfl))
        · have hun : u = nxt := by
            rcases (mem_sadd seen nxt u).1 hu with h | h
            · exact absurd h hus
            · exact h
          subst hun
          by_cases hws : w ∈ sadd seen u
          · exact Or.inl hws
          · exact Or.inr (by rw [hb]; exact List.mem_append.2 (Or.inr ((hnew w).2 ⟨huw, hws⟩)))

/-- **totality of the work-list loop**: a budget of `(size - |seen|) * (size + 1) + |queue|` rounds is never exhausted -/
theorem depsLoop_total (g : G) (hg : GInv g) :
    ∀ (fuel : Nat) (queue seen deps : List Nat), SInv g queue seen →
      (g.size - seen.length) * (g.size + 1) + queue.length ≤ fuel →
      ∃ out, depsLoop g fuel queue seen deps = .ok out := by
  intro fuel
  induction fuel with
  | zero =>
    intro queue seen deps hinv hf
    have : queue = [] := by
      cases queue with
      | nil => rfl
      | cons a r => simp at hf
    subst this
    exact ⟨deps, by rw [depsLoop]⟩
  | succ fuel ih =>
    intro queue seen deps hinv hf
    rw [depsLoop]
    cases hq : queue.reverse with
    | nil => exact ⟨deps, rfl⟩
    | cons nxt restRev =>
      simp only [bind, Except.bind]
      have hqueue : queue = restRev.reverse ++ [nxt] := by
        have := congrArg List.reverse hq
        simpa using this
      subst hqueue
      have hnlt : nxt < g.size := hinv.qlt nxt (by simp)
      rw [edgesAt_eq hg hnlt]
      simp only
      apply ih _ _ _ (sinv_step hg hinv)
      have hsl : seen.length ≤ g.size := nodup_lt_length hinv.nodup hinv.seenlt
      simp only [List.length_append, List.length_singleton] at hf
      rw [List.length_append, sadd_length]
      by_cases hns : nxt ∈ seen
      · -- a second copy of a processed position: every successor has been seen, nothing is pushed
        have hnil : (edgesP g nxt).eraseDups.filter (· ∉ sadd seen nxt) = [] := by
          apply List.filter_eq_nil_iff.2
          intro w hw
          have hpe : PEdge g nxt w := List.mem_eraseDups.1 hw
          have := hinv.lifo restRev.reverse nxt [] rfl hns w hpe
          rcases this with h | h
          · simp [(mem_sadd seen nxt w).2 (Or.inl h)]
          · cases h
        rw [hnil, if_pos hns]
        simp only [List.length_nil]
        omega
      · rw [if_neg hns]
        have hs1 : seen.length + 1 ≤ g.size := by
          have := nodup_lt_length (sadd_nodup hinv.nodup nxt) (sinv_step hg hinv).seenlt
          rw [sadd_length, if_neg hns] at this
          exact this
        have hpush := eraseDups_filter_length_le hg nxt (· ∉ sadd seen nxt)
        obtain ⟨k, hk⟩ : ∃ k, g.size - seen.length = k + 1 := ⟨g.size - seen.length - 1, by omega⟩
        have hk' : g.size - (seen.length + 1) = k := by omega
        rw [hk']
        rw [hk, Nat.succ_mul] at hf
        omega

theorem sinv_init {g : G} {i : Nat} (hi : i < g.size) : SInv g [i] [] := by
  refine ⟨List.nodup_nil, by simp, by simpa using hi, ?_⟩
  intro a u b _ hu; cases hu

/-- **`dependencies(x, recurse=True)` always returns**, on every well-formed graph (cyclic ones included) -/
theorem dependenciesRec_total {g : G} (hg : GInv g) {x : Nat} (hx : g.Node x) :
    ∃ l, g.dependenciesRec x = .ok l ∧ ∀ y, y ∈ l ↔ TransGen g.Edge x y := by
  obtain ⟨i, hi, hix⟩ := hg.indexOf_spec hx
  have hil : i < g.size := lt_of_getElem?_some hix
  obtain ⟨d, hd⟩ := depsLoop_total g hg (g.size * g.size + g.size + 1) [i] [] [] (sinv_init hil) (by
    simp only [List.length_nil, List.length_singleton, Nat.sub_zero, Nat.mul_add, Nat.mul_one]; omega)
  have hdinv : DInv g i [i] [] [] := by
    refine ⟨?_, ?_, ?_, Or.inr (by simp), ?_⟩
    · intro u hu
      rcases hu with hu | hu
      · simp at hu; exact Or.inl hu
      · cases hu
    · intro w hw; cases hw
    · intro u hu; cases hu
    · intro u hu; simp at hu; subst hu; exact hil
  have hmem := depsLoop_spec g hg i _ _ _ _ d hdinv hd
  have hm := mapM_ok_of_forall (nodeAt g) (fun b => g.nodes.seq.getD b 0) d (fun b hb => by
    unfold nodeAt; rw [node_at (transGen_lt hg ((hmem b).1 hb)).2])
  have hok : g.dependenciesRec x = .ok (d.map fun b => g.nodes.seq.getD b 0) := by
    unfold G.dependenciesRec
    rw [hi]
    simp only [bind, Except.bind]
    rw [hd]
    simp only
    rw [hm]
  exact ⟨_, hok, dependenciesRec_spec hg hx hok⟩

end DG
