import Proofs.SchedSpec
/-! Execution counts for C02: every task body runs at most once; from an empty environment exactly the tasks that are
not SKIPPED run. -/
set_option linter.unusedVariables false
set_option linter.unusedSimpArgs false
namespace Sched

/-- released but its `do()` has not been called yet -/
def NotStarted (s : State) (t : Nat) : Prop := some t ∈ s.queue ∨ s.mpc = .put t ∨ ∃ w, s.wpc w = .timeStart t

/-- `do()` has been called, the final status is not written yet -/
def Running (pc : WPc) (t : Nat) : Prop :=
  (∃ a, pc = .timeEnd t a) ∨ (∃ a b, pc = .apply t a b) ∨ (∃ a b, pc = .clocks t a b) ∨ pc = .status t

structure InvE (c : Cfg) (s : State) : Prop where
  undecided_zero : ∀ t, Undecided s t → s.execCount t = 0
  notstarted_zero : ∀ t, NotStarted s t → s.execCount t = 0
  running_one : ∀ w t, Running (s.wpc w) t → s.execCount t = 1
  decided : ∀ t x, t < c.n → ¬ Undecided s t → s.env.entry t = some x →
    (x.st = .skipped → s.execCount t = 0) ∧ (x.st = .done ∨ x.st = .failed → s.execCount t = 1)
  beyond : ∀ t, c.n ≤ t → s.execCount t = 0

theorem running_held {pc : WPc} {t : Nat} (h : Running pc t) : held pc = some t := by
  rcases h with ⟨a, h⟩ | ⟨a, b, h⟩ | ⟨a, b, h⟩ | h <;> rw [h] <;> rfl

theorem notstarted_inflight {s : State} {t : Nat} (h : NotStarted s t) : InFlight s t := by
  rcases h with h | h | ⟨w, h⟩
  · exact Or.inl h
  · exact Or.inr (Or.inl h)
  · exact Or.inr (Or.inr ⟨w, by rw [h]; rfl⟩)

/-- steps that start no task, decide no task and keep every status -/
theorem InvE_simple {c : Cfg} {s s' : State} (h : InvE c s) (hex : s'.execCount = s.execCount)
    (hU : ∀ t, Undecided s' t ↔ Undecided s t) (hN : ∀ t, NotStarted s' t → NotStarted s t)
    (hR : ∀ w t, Running (s'.wpc w) t → Running (s.wpc w) t)
    (hst : ∀ t x', s'.env.entry t = some x' → ∃ x, s.env.entry t = some x ∧ x.st = x'.st) : InvE c s' := by
  refine ⟨?_, ?_, ?_, ?_, ?_⟩
  · intro t hu; rw [hex]; exact h.undecided_zero t ((hU t).1 hu)
  · intro t hn; rw [hex]; exact h.notstarted_zero t (hN t hn)
  · intro w t hr; rw [hex]; exact h.running_one w t (hR w t hr)
  · intro t x' ht hu hx'
    obtain ⟨x, hx, hs⟩ := hst t x' hx'
    rw [hex, ← hs]
    exact h.decided t x ht (fun hc => hu ((hU t).2 hc)) hx
  · intro t ht; rw [hex]; exact h.beyond t ht

theorem running_upd {s : State} {w x : Nat} {pn : WPc} {t : Nat} (h : Running (upd s.wpc w pn x) t)
    (hpn : Running pn t → Running (s.wpc w) t) : Running (s.wpc x) t := by
  by_cases e : x = w
  · subst e; rw [upd_same] at h; exact hpn h
  · rw [upd_other _ _ _ _ e] at h; exact h

theorem notstarted_upd {s : State} {w : Nat} {pn : WPc} {q : List (Option Nat)} {m : MPc} {t : Nat}
    (h : some t ∈ q ∨ m = .put t ∨ ∃ x, upd s.wpc w pn x = .timeStart t)
    (hq : some t ∈ q → NotStarted s t) (hm : m = .put t → s.mpc = .put t) (hpn : pn = .timeStart t → NotStarted s t) :
    NotStarted s t := by
  rcases h with h | h | ⟨x, hx⟩
  · exact hq h
  · exact Or.inr (Or.inl (hm h))
  · by_cases e : x = w
    · subst e; rw [upd_same] at hx; exact hpn hx
    · rw [upd_other _ _ _ _ e] at hx; exact Or.inr (Or.inr ⟨x, hx⟩)

theorem status_updEntry (e : Env) (t : Nat) (f : Entry → Entry) (hf : ∀ x, (f x).st = x.st) (t0 : Nat) (x' : Entry)
    (o : Entry) (ho : e.entry t = some o) (h : (updEntry e t f).entry t0 = some x') :
    ∃ x, e.entry t0 = some x ∧ x.st = x'.st := by
  by_cases et : t0 = t
  · subst et
    rw [entry_updEntry_same, ho] at h
    injection h with h
    exact ⟨o, ho, by rw [← h]; exact (hf o).symm⟩
  · rw [entry_updEntry_other _ _ _ _ et] at h; exact ⟨x', h, rfl⟩

/-- the three decisions of the master that are followed by `advance` -/
theorem InvE_decide_advance {c : Cfg} {s : State} (ha : InvA c s) (hb : InvB c s) (h : InvE c s)
    (hm : s.mpc = .consider) (t : Nat) (rest : List Nat) (ht : s.todo = t :: rest) (r : Decision) (env' : Env)
    (hd : decide c s.env s.left t = (r, env')) (hr : r ≠ .pending) (newLeft : List Nat)
    (hleft : (r = .wait ∧ newLeft = s.left ++ [t]) ∨ (r ≠ .wait ∧ newLeft = s.left)) :
    InvE c (advance { s with env := env', left := newLeft }) := by
  obtain ⟨F1, ⟨y, hy, _, _, _, hyskip, hydrop, _⟩, _⟩ := decide_spec c s.env s.left t r env' hd
  obtain ⟨e_env, e_q, e_w, _, e_x, _, _, e_m⟩ := advance_fields { s with env := env', left := newLeft }
  have hut : Undecided s t := Or.inl (by rw [ht]; simp)
  have hnp : ∀ x, s.mpc ≠ .put x := by intro x hx; rw [hm] at hx; cases hx
  have hU : ∀ x, Undecided (advance { s with env := env', left := newLeft }) x → Undecided s x := by
    intro x hu
    rw [undecided_advance] at hu
    rcases hu with hu | hu
    · left; have : x ∈ s.todo.tail := hu
      rw [ht] at this ⊢; exact List.mem_cons_of_mem _ this
    · have hu' : x ∈ newLeft := hu
      rcases hleft with ⟨_, hl⟩ | ⟨_, hl⟩
      · rw [hl] at hu'
        rcases List.mem_append.1 hu' with hh | hh
        · exact Or.inr hh
        · simp at hh; subst hh; exact hut
      · rw [hl] at hu'; exact Or.inr hu'
  refine ⟨?_, ?_, ?_, ?_, ?_⟩
  · intro x hu; rw [e_x]; exact h.undecided_zero x (hU x hu)
  · rintro x (hn | hn | hn)
    · rw [e_x]; rw [e_q] at hn; exact h.notstarted_zero x (Or.inl hn)
    · exact absurd hn (e_m x)
    · rw [e_x]; rw [e_w] at hn; exact h.notstarted_zero x (Or.inr (Or.inr hn))
  · intro w x hrn; rw [e_x]; rw [e_w] at hrn; exact h.running_one w x hrn
  · intro x z hx hu hz
    rw [e_x]
    rw [e_env] at hz
    have hz' : env'.entry x = some z := hz
    by_cases e : x = t
    · subst e
      rw [hy] at hz'; injection hz' with hz'; subst hz'
      -- `t` is decided: the decision was skip or drop
      have hnw : r ≠ .wait := by
        intro hw
        apply hu
        rw [undecided_advance]
        right
        rcases hleft with ⟨_, hl⟩ | ⟨hh, _⟩
        · show x ∈ newLeft; rw [hl]; simp
        · exact absurd hw hh
      cases r with
      | wait => exact absurd rfl hnw
      | pending => exact absurd rfl hr
      | skip =>
        rw [hyskip rfl]
        exact ⟨fun _ => h.undecided_zero x hut, fun hh => by rcases hh with hh | hh <;> cases hh⟩
      | drop =>
        -- impossible from an empty environment: the task would have to be DONE already
        exfalso
        obtain ⟨hyd, hold⟩ := hydrop rfl
        rcases hb.fresh x hut (hnp x) with hn | ⟨z, hz, hzw⟩
        · rw [hn] at hold; cases hold
        · rw [hz] at hold; injection hold with hold; subst hold; rw [hzw] at hyd; cases hyd
    · rw [F1 x e] at hz'
      have hu' : ¬ Undecided s x := by
        intro hux
        apply hu
        rw [undecided_advance]
        rcases hux with hux | hux
        · left; show x ∈ s.todo.tail
          rw [ht] at hux ⊢
          rcases List.mem_cons.1 hux with hh | hh
          · exact absurd hh e
          · exact hh
        · right; show x ∈ newLeft
          rcases hleft with ⟨_, hl⟩ | ⟨_, hl⟩ <;> rw [hl]
          · exact List.mem_append_left _ hux
          · exact hux
      exact h.decided x z hx hu' hz'
  · intro x hx; rw [e_x]; exact h.beyond x hx

/-- the execution counters are right in every reachable state (runs from an empty environment: `InvB`) -/
theorem InvE_step {c : Cfg} (hc : c.WF) {s s' : State} (ha : InvA c s) (hb : InvB c s) (h : InvE c s) (hs : Step c s s') :
    InvE c s' := by
  have same : ∀ t x', s.env.entry t = some x' → ∃ x, s.env.entry t = some x ∧ x.st = x'.st := fun t x' hx => ⟨x', hx, rfl⟩
  -- a worker moves to a program counter that neither is `timeStart` nor runs a new task
  have wmove : ∀ (w : Nat) (pn : WPc) (q : List (Option Nat)) (u : Nat) (co : Option Nat) (nt : Bool),
      (∀ t, some t ∈ q → some t ∈ s.queue) → (∀ t, pn = .timeStart t → NotStarted s t) →
      (∀ t, Running pn t → Running (s.wpc w) t) →
      InvE c { s with queue := q, unfinished := u, condOwner := co, notified := nt, wpc := upd s.wpc w pn } := by
    intro w pn q u co nt hq hts hrun
    refine InvE_simple h (by rfl) (fun _ => Iff.rfl) ?_ ?_ ?_
    · intro t hn
      exact notstarted_upd hn (fun hh => Or.inl (hq t hh)) (fun hh => hh) (hts t)
    · intro x t hr
      exact running_upd hr (hrun t)
    · exact same
  cases hs with
  | mSpawn k hm =>
    refine InvE_simple h (by rfl) (fun _ => Iff.rfl) ?_ ?_ ?_
    · intro t hn
      refine notstarted_upd (m := afterSpawn c k) hn (fun hh => Or.inl hh) ?_ (by intro hh; cases hh)
      intro hh; exfalso; revert hh; unfold afterSpawn; split <;> (try split) <;> simp
    · intro x t hr; exact running_upd hr (by rintro (⟨a, hh⟩ | ⟨a, b, hh⟩ | ⟨a, b, hh⟩ | hh) <;> cases hh)
    · exact same
  | mAcq hm hcn =>
    refine InvE_simple h (by rfl) (fun _ => Iff.rfl) ?_ ?_ ?_
    · rintro t (hn | hn | hn)
      · exact Or.inl hn
      · cases hn
      · exact Or.inr (Or.inr hn)
    · intro w t hr; exact hr
    · exact same
  | mWake hm hn hcn =>
    have htd := ha.wake_todo hm
    refine InvE_simple h (by rfl) ?_ ?_ ?_ ?_
    · intro t
      constructor
      · rintro (hu | hu)
        · exact Or.inr hu
        · cases hu
      · rintro (hu | hu)
        · rw [htd] at hu; cases hu
        · exact Or.inl hu
    · rintro t (hn | hn | hn)
      · exact Or.inl hn
      · cases hn
      · exact Or.inr (Or.inr hn)
    · intro w t hr; exact hr
    · exact same
  | mQjoin hm hu =>
    refine InvE_simple h (by rfl) (fun _ => Iff.rfl) ?_ ?_ ?_
    · rintro t (hn | hn | hn)
      · exact Or.inl hn
      · exfalso; revert hn; show (if c.workers = 0 then MPc.returned else MPc.sentinel 0) = _ → False; split <;> simp
      · exact Or.inr (Or.inr hn)
    · intro w t hr; exact hr
    · exact same
  | mSentinel k hm =>
    refine InvE_simple h (by rfl) (fun _ => Iff.rfl) ?_ ?_ ?_
    · rintro t (hn | hn | hn)
      · have : some t ∈ s.queue ++ [none] := hn
        rcases List.mem_append.1 this with hh | hh
        · exact Or.inl hh
        · simp at hh
      · exfalso; revert hn; show (if k + 1 < c.workers then MPc.sentinel (k + 1) else MPc.joinW 0) = _ → False; split <;> simp
      · exact Or.inr (Or.inr hn)
    · intro w t hr; exact hr
    · exact same
  | mJoin k hm he =>
    refine InvE_simple h (by rfl) (fun _ => Iff.rfl) ?_ ?_ ?_
    · rintro t (hn | hn | hn)
      · exact Or.inl hn
      · exfalso; revert hn; show (if k + 1 < c.workers then MPc.joinW (k + 1) else MPc.returned) = _ → False; split <;> simp
      · exact Or.inr (Or.inr hn)
    · intro w t hr; exact hr
    · exact same
  | wBegin w hw =>
    exact wmove w .get s.queue s.unfinished s.condOwner s.notified (fun _ hh => hh) (by intro t hh; cases hh)
      (by rintro t (⟨a, hh⟩ | ⟨a, b, hh⟩ | ⟨a, b, hh⟩ | hh) <;> cases hh)
  | wGetTask w t rest hw hq =>
    exact wmove w (.timeStart t) rest s.unfinished s.condOwner s.notified
      (fun x hh => by rw [hq]; exact List.mem_cons_of_mem _ hh)
      (by intro t' hh; injection hh with hh; subst hh; left; rw [hq]; simp)
      (by rintro t' (⟨a, hh⟩ | ⟨a, b, hh⟩ | ⟨a, b, hh⟩ | hh) <;> cases hh)
  | wGetSentinel w rest hw hq =>
    exact wmove w .sentinelDone rest s.unfinished s.condOwner s.notified
      (fun x hh => by rw [hq]; exact List.mem_cons_of_mem _ hh) (by intro t hh; cases hh)
      (by rintro t (⟨a, hh⟩ | ⟨a, b, hh⟩ | ⟨a, b, hh⟩ | hh) <;> cases hh)
  | wTaskDone w hw hu =>
    exact wmove w .cacq s.queue (s.unfinished - 1) s.condOwner s.notified (fun _ hh => hh) (by intro t hh; cases hh)
      (by rintro t (⟨a, hh⟩ | ⟨a, b, hh⟩ | ⟨a, b, hh⟩ | hh) <;> cases hh)
  | wCacq w hw hcn =>
    exact wmove w .notify s.queue s.unfinished (some (w + 1)) s.notified (fun _ hh => hh) (by intro t hh; cases hh)
      (by rintro t (⟨a, hh⟩ | ⟨a, b, hh⟩ | ⟨a, b, hh⟩ | hh) <;> cases hh)
  | wNotify w hw =>
    exact wmove w .get s.queue s.unfinished none (s.notified || s.waiting) (fun _ hh => hh) (by intro t hh; cases hh)
      (by rintro t (⟨a, hh⟩ | ⟨a, b, hh⟩ | ⟨a, b, hh⟩ | hh) <;> cases hh)
  | wSentinelDone w hw hu =>
    exact wmove w .exited s.queue (s.unfinished - 1) s.condOwner s.notified (fun _ hh => hh) (by intro t hh; cases hh)
      (by rintro t (⟨a, hh⟩ | ⟨a, b, hh⟩ | ⟨a, b, hh⟩ | hh) <;> cases hh)
  | wTimeEnd w t a hw =>
    refine InvE_simple h (by rfl) (fun _ => Iff.rfl) ?_ ?_ same
    · intro t' hn
      refine notstarted_upd hn (fun hh => Or.inl hh) (fun hh => hh) ?_
      intro hh; split at hh <;> cases hh
    · intro x t' hr
      refine running_upd hr ?_
      intro hr'
      have : t' = t := by
        have h1 := running_held hr'
        split at h1 <;> (injection h1 with h1; exact h1.symm)
      subst this; rw [hw]; exact Or.inl ⟨a, rfl⟩
  | wApply w t a b hw =>
    have hheld : held (s.wpc w) = some t := by rw [hw]; rfl
    obtain ⟨⟨o, ho, hop⟩, _⟩ := ha.inflight_pending t (Or.inr (Or.inr ⟨w, hheld⟩))
    refine InvE_simple h (by rfl) (fun _ => Iff.rfl) ?_ ?_ ?_
    · intro t' hn
      exact notstarted_upd hn (fun hh => Or.inl hh) (fun hh => hh) (by intro hh; cases hh)
    · intro x t' hr
      refine running_upd hr ?_
      rintro (⟨a', hh⟩ | ⟨a', b', hh⟩ | ⟨a', b', hh⟩ | hh) <;> cases hh
      rw [hw]; exact Or.inr (Or.inl ⟨a, b, rfl⟩)
    · intro t0 x' hx'
      exact status_updEntry s.env t (fun x => { x with pay := some a }) (fun _ => rfl) t0 x' o ho hx'
  | wClocks w t a b hw =>
    have hheld : held (s.wpc w) = some t := by rw [hw]; rfl
    obtain ⟨⟨o, ho, hop⟩, _⟩ := ha.inflight_pending t (Or.inr (Or.inr ⟨w, hheld⟩))
    refine InvE_simple h (by rfl) (fun _ => Iff.rfl) ?_ ?_ ?_
    · intro t' hn
      exact notstarted_upd hn (fun hh => Or.inl hh) (fun hh => hh) (by intro hh; cases hh)
    · intro x t' hr
      refine running_upd hr ?_
      rintro (⟨a', hh⟩ | ⟨a', b', hh⟩ | ⟨a', b', hh⟩ | hh) <;> cases hh
      rw [hw]; exact Or.inr (Or.inr (Or.inl ⟨a, b, rfl⟩))
    · intro t0 x' hx'
      exact status_updEntry s.env t (fun x => { x with startC := some a, endC := some b }) (fun _ => rfl) t0 x' o ho hx'
  | wStatus w t hw =>
    have hheld : held (s.wpc w) = some t := by rw [hw]; rfl
    have hfl : InFlight s t := Or.inr (Or.inr ⟨w, hheld⟩)
    have hone : s.execCount t = 1 := h.running_one w t (by rw [hw]; exact Or.inr (Or.inr (Or.inr rfl)))
    obtain ⟨y, hy, hyst, _, _⟩ := entry_setSt_same s.env t (c.outOf t).status
    refine ⟨h.undecided_zero, ?_, ?_, ?_, h.beyond⟩
    · intro t' hn
      exact h.notstarted_zero t' (notstarted_upd hn (fun hh => Or.inl hh) (fun hh => hh) (by intro hh; cases hh))
    · intro x t' hr
      exact h.running_one x t' (running_upd hr (by rintro (⟨a', hh⟩ | ⟨a', b', hh⟩ | ⟨a', b', hh⟩ | hh) <;> cases hh))
    · intro t0 x' ht0 hu hx'
      have hx'' : (s.env.setSt t (c.outOf t).status).entry t0 = some x' := hx'
      by_cases e : t0 = t
      · subst e
        rw [hy] at hx''; injection hx'' with hx''; subst hx''
        refine ⟨?_, fun _ => hone⟩
        intro hsk
        rw [hyst] at hsk
        cases hout : c.outOf t0 <;> rw [hout] at hsk <;> cases hsk
      · rw [entry_setSt_other _ _ _ _ e] at hx''
        exact h.decided t0 x' ht0 hu hx''
  | wTimeStart w t hw =>
    have hheld : held (s.wpc w) = some t := by rw [hw]; rfl
    have hfl : InFlight s t := Or.inr (Or.inr ⟨w, hheld⟩)
    have hzero : s.execCount t = 0 := h.notstarted_zero t (Or.inr (Or.inr ⟨w, hw⟩))
    obtain ⟨hnq, hnp⟩ := ha.uniq.held_not_queued w t hheld
    obtain ⟨⟨o, ho, hop⟩, hdec⟩ := ha.inflight_pending t hfl
    have hnu : ¬ Undecided s t := by
      rcases hdec with hd | hd
      · exact hd
      · exact absurd hd hnp
    have hex : ∀ x, x ≠ t → upd s.execCount t (s.execCount t + 1) x = s.execCount x := fun x hx => upd_other _ _ _ _ hx
    refine ⟨?_, ?_, ?_, ?_, ?_⟩
    · intro x hu
      have hx : x ≠ t := fun e => hnu (e ▸ hu)
      show upd s.execCount t (s.execCount t + 1) x = 0
      rw [hex x hx]; exact h.undecided_zero x hu
    · intro x hn
      have hn' : some x ∈ s.queue ∨ s.mpc = .put x ∨ ∃ y, upd s.wpc w (.timeEnd t (s.clock + 1)) y = .timeStart x := hn
      have hx : x ≠ t := by
        intro e; subst e
        rcases hn' with hh | hh | ⟨y, hy⟩
        · exact hnq hh
        · exact hnp hh
        · by_cases ey : y = w
          · subst ey; rw [upd_same] at hy; cases hy
          · rw [upd_other _ _ _ _ ey] at hy
            exact ey (ha.uniq.held_once y w x (by rw [hy]; rfl) hheld)
      show upd s.execCount t (s.execCount t + 1) x = 0
      rw [hex x hx]
      exact h.notstarted_zero x (notstarted_upd hn' (fun hh => Or.inl hh) (fun hh => hh) (by intro hh; cases hh))
    · intro y x hr
      have hr' : Running (upd s.wpc w (.timeEnd t (s.clock + 1)) y) x := hr
      show upd s.execCount t (s.execCount t + 1) x = 1
      by_cases ey : y = w
      · subst ey
        rw [upd_same] at hr'
        have : x = t := by have := running_held hr'; injection this with this; exact this.symm
        subst this
        rw [upd_same, hzero]
      · rw [upd_other _ _ _ _ ey] at hr'
        have hx : x ≠ t := by
          intro e; subst e
          exact ey (ha.uniq.held_once y w x (running_held hr') hheld)
        rw [hex x hx]; exact h.running_one y x hr'
    · intro x z hx hu hz
      have hz' : s.env.entry x = some z := hz
      show (z.st = .skipped → upd s.execCount t (s.execCount t + 1) x = 0) ∧
        (z.st = .done ∨ z.st = .failed → upd s.execCount t (s.execCount t + 1) x = 1)
      by_cases e : x = t
      · subst e
        rw [ho] at hz'; injection hz' with hz'; subst hz'
        rw [hop]
        exact ⟨fun hh => (by cases hh), fun hh => (by rcases hh with hh | hh <;> cases hh)⟩
      · rw [hex x e]; exact h.decided x z hx hu hz'
    · intro x hx
      have hxt : x ≠ t := by
        intro e; subst e
        exact absurd (ha.inflight_deps) (by
          intro _
          have := hb.inflight_lt x hfl
          omega)
      show upd s.execCount t (s.execCount t + 1) x = 0
      rw [hex x hxt]; exact h.beyond x hx
  | mWait t rest env' hm ht hd =>
    exact InvE_decide_advance ha hb h hm t rest ht _ env' hd (by simp) (s.left ++ [t]) (Or.inl ⟨rfl, rfl⟩)
  | mSkip t rest env' hm ht hd =>
    exact InvE_decide_advance ha hb h hm t rest ht _ env' hd (by simp) s.left (Or.inr ⟨by simp, rfl⟩)
  | mDrop t rest env' hm ht hd =>
    exact InvE_decide_advance ha hb h hm t rest ht _ env' hd (by simp) s.left (Or.inr ⟨by simp, rfl⟩)
  | mPending t rest env' hm ht hd =>
    obtain ⟨F1, ⟨y, hy, _, _, _, _, _, hypend⟩, _⟩ := decide_spec c s.env s.left t _ env' hd
    have hut : Undecided s t := Or.inl (by rw [ht]; simp)
    refine ⟨h.undecided_zero, ?_, h.running_one, ?_, h.beyond⟩
    · rintro x (hn | hn | hn)
      · exact h.notstarted_zero x (Or.inl hn)
      · injection hn with hn; subst hn; exact h.undecided_zero _ hut
      · exact h.notstarted_zero x (Or.inr (Or.inr hn))
    · intro x z hx hu hz
      have hz' : env'.entry x = some z := hz
      have e : x ≠ t := fun e => hu (e ▸ hut)
      rw [F1 x e] at hz'
      exact h.decided x z hx hu hz'
  | mPut t hm =>
    obtain ⟨e_env, e_q, e_w, _, e_x, _, _, e_m⟩ :=
      advance_fields { s with queue := s.queue ++ [some t], unfinished := s.unfinished + 1 }
    obtain ⟨rest, hr⟩ := ha.put_head t hm
    have hfl : InFlight s t := Or.inr (Or.inl hm)
    obtain ⟨⟨o, ho, hop⟩, _⟩ := ha.inflight_pending t hfl
    have hU : ∀ x, Undecided (advance { s with queue := s.queue ++ [some t], unfinished := s.unfinished + 1 }) x →
        Undecided s x := by
      intro x hu
      rw [undecided_advance] at hu
      rcases hu with hu | hu
      · left; have : x ∈ s.todo.tail := hu
        rw [hr] at this ⊢; exact List.mem_cons_of_mem _ this
      · exact Or.inr hu
    refine ⟨?_, ?_, ?_, ?_, ?_⟩
    · intro x hu; rw [e_x]; exact h.undecided_zero x (hU x hu)
    · rintro x (hn | hn | hn)
      · rw [e_x]; rw [e_q] at hn
        have hn' : some x ∈ s.queue ++ [some t] := hn
        rcases List.mem_append.1 hn' with hh | hh
        · exact h.notstarted_zero x (Or.inl hh)
        · simp at hh; subst hh; exact h.notstarted_zero x (Or.inr (Or.inl hm))
      · exact absurd hn (e_m x)
      · rw [e_x]; rw [e_w] at hn; exact h.notstarted_zero x (Or.inr (Or.inr hn))
    · intro w x hrn; rw [e_x]; rw [e_w] at hrn; exact h.running_one w x hrn
    · intro x z hx hu hz
      rw [e_x]
      rw [e_env] at hz
      have hz' : s.env.entry x = some z := hz
      by_cases e : x = t
      · subst e
        rw [ho] at hz'; injection hz' with hz'; subst hz'
        rw [hop]
        exact ⟨fun hh => (by cases hh), fun hh => (by rcases hh with hh | hh <;> cases hh)⟩
      · have hu' : ¬ Undecided s x := by
          intro hux
          apply hu
          rw [undecided_advance]
          rcases hux with hux | hux
          · left; show x ∈ s.todo.tail
            rw [hr] at hux ⊢
            rcases List.mem_cons.1 hux with hh | hh
            · exact absurd hh e
            · exact hh
          · exact Or.inr hux
        exact h.decided x z hx hu' hz'
    · intro x hx; rw [e_x]; exact h.beyond x hx

end Sched
