import Proofs.DepGraphTopo
import Mathlib.Logic.Relation
/-! Totality of the depth-first topological sort of the model (C16, second sentence): with the recursion budget
`size + 1` it never runs out of budget; it returns a list exactly when the graph is acyclic and otherwise fails with
`cyclic` — never with anything else. -/
set_option linter.unusedVariables false
namespace DG
open Relation

/-- `a` depends directly on `b`, on positions -/
def PEdge (g : G) (a b : Nat) : Prop := b ∈ edgesP g a

/-- number of positions currently on the DFS stack -/
def tempCount (g : G) (st : TopoSt) : Nat := (List.range g.size).countP (fun q => decide (st.mark q = some .temp))

theorem tempCount_le (g : G) (st : TopoSt) : tempCount g st ≤ g.size := by
  unfold tempCount
  exact Nat.le_trans List.countP_le_length (by simp)

theorem countP_add_one {P P' : Nat → Bool} (p : Nat) (l : List Nat) (hl : l.Nodup) (hp : p ∈ l)
    (hP : P p = false) (hP' : ∀ q, P' q = (P q || decide (q = p))) : l.countP P' = l.countP P + 1 := by
  induction l with
  | nil => cases hp
  | cons x xs ih =>
    have hnd := List.nodup_cons.1 hl
    by_cases e : x = p
    · subst e
      have hrest : xs.countP P' = xs.countP P := by
        apply List.countP_congr
        intro q hq
        have : q ≠ x := fun h => hnd.1 (h ▸ hq)
        rw [hP' q]; simp [this]
      rw [List.countP_cons, List.countP_cons, hrest, hP' x, hP]
      simp
    · have hp' : p ∈ xs := by
        rcases List.mem_cons.1 hp with h | h
        · exact absurd h.symm e
        · exact h
      rw [List.countP_cons, List.countP_cons, ih hnd.2 hp', hP' x]
      simp [e]
      omega

theorem tempCount_setTemp (g : G) (st : TopoSt) (p : Nat) (hp : p < g.size) (hm : st.mark p = none) :
    tempCount g (st.setMark p .temp) = tempCount g st + 1 := by
  unfold tempCount
  apply countP_add_one p _ List.nodup_range (List.mem_range.2 hp)
  · simp [hm]
  · intro q
    rw [mark_setMark]
    by_cases e : q = p
    · simp [e]
    · simp [e]

theorem tempCount_congr (g : G) (st st' : TopoSt) (h : ∀ q, st.mark q = some .temp ↔ st'.mark q = some .temp) :
    tempCount g st = tempCount g st' := by
  unfold tempCount
  apply List.countP_congr
  intro q _
  simp [h q]

theorem TInv.setTemp {g : G} {st : TopoSt} (hi : TInv g st) (p : Nat) (hm : st.mark p = none) :
    TInv g (st.setMark p .temp) := by
  refine ⟨hi.nodup, ?_, hi.closed, hi.bound⟩
  intro q
  rw [mark_setMark]
  by_cases e : q = p
  · subst e
    simp only [if_true]
    constructor
    · intro hh; cases hh
    · intro hq; have := (hi.perm_iff q).2 hq; rw [hm] at this; cases this
  · rw [if_neg e]; exact hi.perm_iff q

/-- the outcome of a visit: a new state, or the `cyclic` error together with an actual cycle -/
def Outcome (g : G) (r : Except Err TopoSt) : Prop :=
  (∃ st', r = .ok st') ∨ (r = .error .cyclic ∧ ∃ q, TransGen (PEdge g) q q)

/-- totality of `_visit` and of the loop over the dependencies: as long as every position on the DFS stack reaches
the position being visited and the budget covers the positions not yet on the stack, the visit returns, or fails
with `cyclic` on a real cycle. -/
theorem visit_total (g : G) (hg : GInv g) (fuel : Nat) :
    (∀ st p, TInv g st → p < g.size → (∀ t, st.mark t = some .temp → TransGen (PEdge g) t p) →
      g.size + 1 ≤ fuel + tempCount g st → Outcome g (visit g fuel st p)) ∧
    (∀ st ts, TInv g st → (∀ t ∈ ts, t < g.size) →
      (∀ t, st.mark t = some .temp → ∀ q ∈ ts, TransGen (PEdge g) t q) →
      g.size + 1 ≤ fuel + tempCount g st → Outcome g (visitList g fuel st ts)) := by
  induction fuel with
  | zero =>
    have hno : ∀ st, ¬ (g.size + 1 ≤ 0 + tempCount g st) := by
      intro st h; have := tempCount_le g st; omega
    exact ⟨fun st p _ _ _ h => absurd h (hno st), fun st ts _ _ _ h => absurd h (hno st)⟩
  | succ fuel ih =>
    obtain ⟨ihv, ihl⟩ := ih
    have hvisit : ∀ st p, TInv g st → p < g.size → (∀ t, st.mark t = some .temp → TransGen (PEdge g) t p) →
        g.size + 1 ≤ (fuel + 1) + tempCount g st → Outcome g (visit g (fuel + 1) st p) := by
      intro st p hi hp hreach hfuel
      rw [visit]
      cases hm : st.mark p with
      | some m =>
        cases m with
        | temp => exact Or.inr ⟨rfl, p, hreach p hm⟩
        | perm => exact Or.inl ⟨st, rfl⟩
      | none =>
        simp only [bind, Except.bind]
        have hi1 := hi.setTemp p hm
        have hcnt := tempCount_setTemp g st p hp hm
        have hreach1 : ∀ t, (st.setMark p .temp).mark t = some .temp → ∀ q ∈ edgesP g p, TransGen (PEdge g) t q := by
          intro t ht q hq
          rw [mark_setMark] at ht
          by_cases e : t = p
          · subst e; exact TransGen.single hq
          · rw [if_neg e] at ht; exact TransGen.tail (hreach t ht) hq
        have hout := ihl (st.setMark p .temp) (edgesP g p) hi1 (fun t ht => edgesP_lt hg p t ht) hreach1
          (by rw [hcnt]; omega)
        have hsame : visitList g fuel (st.setMark p .temp) ((g.edges.get p).getD []) =
            visitList g fuel (st.setMark p .temp) (edgesP g p) := rfl
        rw [hsame]
        rcases hout with ⟨st2, h2⟩ | ⟨h2, hc⟩
        · rw [h2]; exact Or.inl ⟨_, rfl⟩
        · rw [h2]; exact Or.inr ⟨rfl, hc⟩
    refine ⟨hvisit, ?_⟩
    intro st ts hi hts hreach hfuel
    induction ts generalizing st with
    | nil => exact Or.inl ⟨st, by simp [visitList]⟩
    | cons t ts iht =>
      rw [visitList]
      simp only [bind, Except.bind]
      have hv := hvisit st t hi (hts t (by simp)) (fun u hu => hreach u hu t (by simp)) hfuel
      rcases hv with ⟨st1, h1⟩ | ⟨h1, hc⟩
      · rw [h1]
        obtain ⟨hi1, hx1, _⟩ := (visit_sound g hg (fuel + 1)).1 _ _ _ hi (hts t (by simp)) h1
        have hcnt : tempCount g st = tempCount g st1 :=
          tempCount_congr g st st1 (fun q => ⟨hx1.temp q, hx1.temp_back q⟩)
        exact iht st1 hi1 (fun a ha => hts a (by simp [ha]))
          (fun u hu q hq => hreach u (hx1.temp_back u hu) q (by simp [hq])) (by rw [← hcnt]; exact hfuel)
      · rw [h1]; exact Or.inr ⟨rfl, hc⟩

/-- the outer loop over all positions -/
theorem fold_total (g : G) (hg : GInv g) (l : List Nat) (hl : ∀ p ∈ l, p < g.size) :
    ∀ st, TInv g st → NoTemp st →
      Outcome g (l.foldlM (fun st p => if (st.mark p).isSome then pure st else visit g (g.size + 1) st p) st) := by
  induction l with
  | nil => intro st _ _; exact Or.inl ⟨st, by simp [List.foldlM, pure, Except.pure]⟩
  | cons p ps ih =>
    intro st hi hn
    rw [List.foldlM_cons]
    have hcnt0 : tempCount g st = 0 := by
      unfold tempCount
      rw [List.countP_eq_zero]
      intro q _
      simp [hn q]
    by_cases hs : (st.mark p).isSome
    · rw [if_pos hs]
      simp only [bind, Except.bind, pure, Except.pure]
      exact ih (fun q hq => hl q (by simp [hq])) st hi hn
    · rw [if_neg hs]
      have hv := (visit_total g hg (g.size + 1)).1 st p hi (hl p (by simp))
        (fun t ht => absurd ht (hn t)) (by omega)
      rcases hv with ⟨st1, h1⟩ | ⟨h1, hc⟩
      · rw [h1]
        simp only [bind, Except.bind]
        obtain ⟨hi1, hx1, _⟩ := (visit_sound g hg (g.size + 1)).1 _ _ _ hi (hl p (by simp)) h1
        exact ih (fun q hq => hl q (by simp [hq])) st1 hi1 (fun q hq => hn q (hx1.temp_back q hq))
      · rw [h1]; exact Or.inr ⟨rfl, hc⟩

/-- a cycle among the nodes -/
def G.Cyclic (g : G) : Prop := ∃ x, TransGen g.Edge x x

theorem pedge_edge {g : G} (hg : GInv g) {a b : Nat} (h : PEdge g a b) :
    ∃ x y, g.nodes.seq[a]? = some x ∧ g.nodes.seq[b]? = some y ∧ g.Edge x y := by
  unfold PEdge edgesP at h
  cases he : g.edges.get a with
  | none => rw [he] at h; cases h
  | some s =>
    rw [he] at h
    have ha : a < g.size := (hg.edom a).1 (by rw [he]; rfl)
    have hb : b < g.size := hg.erange a s he b h
    have ha' : a < g.nodes.seq.length := ha
    have hb' : b < g.nodes.seq.length := hb
    exact ⟨g.nodes.seq[a], g.nodes.seq[b], List.getElem?_eq_getElem ha', List.getElem?_eq_getElem hb',
      a, b, s, List.getElem?_eq_getElem ha', List.getElem?_eq_getElem hb', he, h⟩

/-- a cycle among the positions is a cycle among the nodes -/
theorem pcycle_cycle {g : G} (hg : GInv g) {a b : Nat} (h : TransGen (PEdge g) a b) :
    ∃ x y, g.nodes.seq[a]? = some x ∧ g.nodes.seq[b]? = some y ∧ TransGen g.Edge x y := by
  induction h with
  | single h1 =>
    obtain ⟨x, y, hx, hy, he⟩ := pedge_edge hg h1
    exact ⟨x, y, hx, hy, TransGen.single he⟩
  | tail _ h2 ih =>
    obtain ⟨x, y, hx, hy, hxy⟩ := ih
    obtain ⟨y', z, hy', hz, he⟩ := pedge_edge hg h2
    rw [hy] at hy'
    cases hy'
    exact ⟨x, z, hx, hz, TransGen.tail hxy he⟩

/-- `Before` in a duplicate-free list is a strict order: it cannot hold along a cycle -/
theorem before_idx {l : List Nat} (hl : l.Nodup) {q p : Nat} (h : Before l q p) : l.idxOf q < l.idxOf p := by
  obtain ⟨l1, l2, e, hq⟩ := h
  subst e
  have hp1 : p ∉ l1 := by
    intro hp
    have := List.nodup_append.1 hl
    exact this.2.2 p hp p (by simp) rfl
  rw [List.idxOf_append_of_mem hq, List.idxOf_append_of_notMem hp1]
  have := List.idxOf_lt_length_of_mem hq
  simp
  omega

/-- **`topological_sort` is total with the expected outcomes**: it returns a list, or it fails with `cyclic` and the
graph has a cycle; no other failure is possible. -/
theorem topologicalSort_total {g : G} (hg : GInv g) :
    (∃ l, g.topologicalSort = .ok l) ∨ (g.topologicalSort = .error .cyclic ∧ g.Cyclic) := by
  have hf := fold_total g hg (List.range g.size) (fun p hp => List.mem_range.1 hp) ⟨[], []⟩
    ⟨List.nodup_nil, fun p => (by simp [TopoSt.mark]), fun p hp _ _ => (by cases hp), fun p hp => (by cases hp)⟩
    (fun q => by simp [TopoSt.mark])
  rcases hf with ⟨st, h⟩ | ⟨h, q, hq⟩
  · left
    have hps : g.topoPositions = .ok st.result := by
      unfold G.topoPositions; rw [h]; rfl
    obtain ⟨_, hmem, _⟩ := topoPositions_sound hg hps
    refine ⟨st.result.map (fun p => g.nodes.seq.getD p 0), ?_⟩
    unfold G.topologicalSort
    rw [hps]
    simp only [bind, Except.bind]
    apply mapM_ok_of_forall
    intro p hp
    have hp' : p < g.nodes.seq.length := (hmem p).1 hp
    unfold nodeAt
    simp [List.getD, List.getElem?_eq_getElem hp']
  · right
    constructor
    · unfold G.topologicalSort G.topoPositions; rw [h]; rfl
    · obtain ⟨x, y, hx, hy, hxy⟩ := pcycle_cycle hg hq
      rw [hx] at hy; cases hy
      exact ⟨x, hxy⟩

/-- **a cyclic graph is never sorted**: the sort raises (and by `topologicalSort_total` what it raises is `cyclic`) -/
theorem topologicalSort_cyclic {g : G} (hg : GInv g) (hc : g.Cyclic) : g.topologicalSort = .error .cyclic := by
  rcases topologicalSort_total hg with ⟨l, h⟩ | ⟨h, _⟩
  · exfalso
    obtain ⟨hnd, _, hbef⟩ := topologicalSort_sound hg h
    obtain ⟨x, hx⟩ := hc
    have : ∀ a b, TransGen g.Edge a b → l.idxOf b < l.idxOf a := by
      intro a b hab
      induction hab with
      | single h1 => exact before_idx hnd (hbef _ _ h1)
      | tail _ h2 ih => exact Nat.lt_trans (before_idx hnd (hbef _ _ h2)) ih
    exact Nat.lt_irrefl _ (this x x hx)
  · exact h

/-- **an acyclic graph is always sorted** -/
theorem topologicalSort_acyclic {g : G} (hg : GInv g) (hac : ¬ g.Cyclic) : ∃ l, g.topologicalSort = .ok l := by
  rcases topologicalSort_total hg with h | ⟨_, hc⟩
  · exact h
  · exact absurd hc hac

end DG
