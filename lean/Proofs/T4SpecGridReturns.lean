import Proofs.T4SpecGrid
/-! `convert` **returns** on a response printed over a full (time x mu x phi) grid (C10) — the hypothesis of
`grid_scores_attached` discharged.  -/
set_option linter.unusedVariables false
namespace T4Spec
variable {α : Type} [Num α]

/-- the rows `rs`, read from position `ie` of the block `all`, continue each other: the lower bound of a row is the upper
bound of the row printed before it (what `_check_bins` demands of the first block) -/
def RowsContig (all : List (Row α)) (ie : Nat) (rs : List (Row α)) : Prop :=
  ∀ k (hk : k < rs.length), ie + k ≠ 0 → Num.beq rs[k].lo ((all.getD (ie + k - 1) rs[k]).hi) = true

theorem fillRows_succeeds (all : List (Row α)) : ∀ (rs : List (Row α)) (ie : Nat) (b : B α),
    b.itime < b.nt → b.imu < b.nmu → b.iphi < b.nphi → ie + rs.length ≤ b.ne →
    (b.cur = (0, 0, 0) → (ie = 0 → b.ebins = []) ∧ RowsContig all ie rs) →
    ∃ b', fillRows b all ie rs = .ok b' := by
  intro rs
  induction rs with
  | nil => intro ie b _ _ _ _ _; exact ⟨b, by rw [fillRows]⟩
  | cons r rs ih =>
    intro ie b h1 h2 h3 hlen hfirst
    have hie : ie < b.ne := by simp only [List.length_cons] at hlen; omega
    by_cases hf : (b.itime == 0 && b.imu == 0 && b.iphi == 0) = true
    · have hcur : b.cur = (0, 0, 0) := by
        simp only [Bool.and_eq_true, beq_iff_eq] at hf
        unfold B.cur; rw [hf.1.1, hf.1.2, hf.2]
      obtain ⟨he, hc⟩ := hfirst hcur
      rw [fillRows]
      simp only [hf, Bool.true_and]
      have hbad : (!b.ebins.isEmpty && !Num.beq r.lo (all.getD (ie - 1) r).hi && ie != 0 ||
              !b.ebins.isEmpty && ie == 0 && !Num.beq r.lo (all.getLastD r).hi) = false := by
        by_cases h0 : ie = 0
        · subst h0; simp [he rfl]
        · have hk := hc 0 (by simp) (by omega)
          simp only [List.getElem_cons_zero, Nat.add_zero] at hk
          rw [List.getD_eq_getElem?_getD] at hk
          simp [hk, h0]
      rw [hbad]
      simp only [if_true, Bool.false_eq_true, if_false]
      rw [if_pos ⟨hie, h1, h2, h3⟩]
      apply ih
      · exact h1
      · exact h2
      · exact h3
      · simp only [List.length_cons] at hlen; show ie + 1 + rs.length ≤ b.ne; omega
      · intro _
        refine ⟨by omega, ?_⟩
        intro k hk hne
        have := hc (k + 1) (by simp; omega) (by omega)
        simp only [List.getElem_cons_succ] at this
        have e : ie + (k + 1) - 1 = ie + 1 + k - 1 := by omega
        rw [e] at this
        exact this
    · rw [fillRows]
      have hf' : (b.itime == 0 && b.imu == 0 && b.iphi == 0) = false := by simpa using hf
      simp only [hf', Bool.false_and, Bool.or_self, Bool.false_eq_true, if_false]
      rw [if_pos ⟨hie, h1, h2, h3⟩]
      apply ih
      · exact h1
      · exact h2
      · exact h3
      · simp only [List.length_cons] at hlen; show ie + 1 + rs.length ≤ b.ne; omega
      · intro hcur
        exfalso
        apply hf
        unfold B.cur at hcur
        injection hcur with a hcur
        injection hcur with b' c
        simp only [Bool.and_eq_true, beq_iff_eq]
        exact ⟨⟨a, b'⟩, c⟩

theorem cur_lt_of (b : B α) {cu : Cur} (h : b.cur = cu) (hlt : cu.1 < b.nt ∧ cu.2.1 < b.nmu ∧ cu.2.2 < b.nphi) :
    b.itime < b.nt ∧ b.imu < b.nmu ∧ b.iphi < b.nphi := by
  subst h; exact hlt

/-- blocks read under indices other than (0, 0, 0), in range, with no more rows than groups: `fill` returns -/
theorem fill_succeeds_rest : ∀ (d : List (Block α)) (b : B α),
    (∀ k ∈ d, k.integ = none ∧ k.rows.length ≤ b.ne) →
    (∀ cu ∈ cursors b.cur d, cu ≠ (0, 0, 0) ∧ cu.1 < b.nt ∧ cu.2.1 < b.nmu ∧ cu.2.2 < b.nphi) →
    ∃ b', fill b d = .ok b' := by
  intro d
  induction d with
  | nil => intro b _ _; exact ⟨b, by rw [fill]⟩
  | cons k ks ih =>
    intro b hk hcu
    obtain ⟨f1, _, f3, f4, f5, f6, _, _⟩ := stepKeys_facts b k
    obtain ⟨hne, hlt⟩ := hcu (curStep b.cur k) (by simp [cursors])
    obtain ⟨hin, hlen⟩ := hk k (by simp)
    obtain ⟨g1, g2, g3⟩ := cur_lt_of (stepKeys b k) f1 (by rw [f4, f5, f6]; exact hlt)
    obtain ⟨b1, hb1⟩ := fillRows_succeeds k.rows k.rows 0 (stepKeys b k) g1 g2 g3 (by rw [f3]; simpa using hlen)
      (fun h => absurd (f1.symm.trans h) hne)
    obtain ⟨_, c1, c2, c3, c4, c5, _⟩ := fillRows_ok k.rows k.rows 0 _ _ hb1
    rw [fill_cons, hb1]
    simp only [hin]
    apply ih
    · intro k' hk'
      obtain ⟨a, b'⟩ := hk k' (by simp [hk'])
      exact ⟨a, by rw [c2, f3]; exact b'⟩
    · intro cu hcu'
      rw [c1, f1] at hcu'
      have := hcu cu (by simp [cursors, hcu'])
      rw [c3, c4, c5, f4, f5, f6]
      exact this

/-- the same with a first block read under (0, 0, 0) whose rows continue each other -/
theorem fill_succeeds_first (k0 : Block α) (ks : List (Block α)) (b : B α) (he : b.ebins = [])
    (h0 : k0.integ = none ∧ k0.rows.length ≤ b.ne) (hc : RowsContig k0.rows 0 k0.rows)
    (hlt0 : (curStep b.cur k0).1 < b.nt ∧ (curStep b.cur k0).2.1 < b.nmu ∧ (curStep b.cur k0).2.2 < b.nphi)
    (hk : ∀ k ∈ ks, k.integ = none ∧ k.rows.length ≤ b.ne)
    (hcu : ∀ cu ∈ cursors (curStep b.cur k0) ks, cu ≠ (0, 0, 0) ∧ cu.1 < b.nt ∧ cu.2.1 < b.nmu ∧ cu.2.2 < b.nphi) :
    ∃ b', fill b (k0 :: ks) = .ok b' := by
  obtain ⟨f1, _, f3, f4, f5, f6, _, f8⟩ := stepKeys_facts b k0
  obtain ⟨g1, g2, g3⟩ := cur_lt_of (stepKeys b k0) f1 (by rw [f4, f5, f6]; exact hlt0)
  obtain ⟨b1, hb1⟩ := fillRows_succeeds k0.rows k0.rows 0 (stepKeys b k0) g1 g2 g3 (by rw [f3]; simpa using h0.2)
    (fun _ => ⟨fun _ => by rw [f8, he], hc⟩)
  obtain ⟨_, c1, c2, c3, c4, c5, _⟩ := fillRows_ok k0.rows k0.rows 0 _ _ hb1
  rw [fill_cons, hb1]
  simp only [h0.1]
  apply fill_succeeds_rest
  · intro k' hk'
    obtain ⟨a, b'⟩ := hk k' hk'
    exact ⟨a, by rw [c2, f3]; exact b'⟩
  · intro cu hcu'
    rw [c1, f1] at hcu'
    rw [c3, c4, c5, f4, f5, f6]
    exact hcu cu hcu'

theorem mem_blocks (G : Grid α) {k : Block α} (h : k ∈ G.blocks) :
    ∃ it im ip, it < G.nt ∧ im < G.nmu ∧ ip < G.nphi ∧ k = G.blk it im ip := by
  unfold Grid.blocks Grid.mid Grid.inner at h
  simp only [List.mem_flatMap, List.mem_map, List.mem_range] at h
  obtain ⟨it, h1, im, h2, ip, h3, e⟩ := h
  exact ⟨it, im, ip, h1, h2, h3, e.symm⟩

theorem mem_gridCursors (G : Grid α) {cu : Cur}
    (h : cu ∈ (List.range G.nt).flatMap fun it => (List.range G.nmu).flatMap fun im =>
      (List.range G.nphi).map fun ip => (it, im, ip)) : cu.1 < G.nt ∧ cu.2.1 < G.nmu ∧ cu.2.2 < G.nphi := by
  simp only [List.mem_flatMap, List.mem_map, List.mem_range] at h
  obtain ⟨it, h1, im, h2, ip, h3, e⟩ := h
  subst e
  exact ⟨h1, h2, h3⟩

/-- **`fill` returns on a printed grid**: every block has at most as many rows as the first one, the rows of the first
block continue each other -/
theorem fill_grid_returns (G : Grid α) (ht : 0 < G.nt) (hm : 0 < G.nmu) (hp : 0 < G.nphi)
    (hrows : ∀ it im ip, it < G.nt → im < G.nmu → ip < G.nphi → (G.rows it im ip).length ≤ (G.rows 0 0 0).length)
    (hc : RowsContig (G.rows 0 0 0) 0 (G.rows 0 0 0)) :
    ∃ b, fill { ne := (G.rows 0 0 0).length, nt := G.nt, nmu := G.nmu, nphi := G.nphi } G.blocks = .ok b := by
  have hcur := cursors_blocks G hp
  have hnd := cursors_blocks_nodup G hp
  have hfirst : G.blocks[0]? = some (G.blk 0 0 0) := by
    have := blocks_get G 0 0 0 ht hm hp
    simpa using this
  cases hd : G.blocks with
  | nil => rw [hd] at hfirst; cases hfirst
  | cons k0 ks =>
    have hk0 : k0 = G.blk 0 0 0 := by rw [hd] at hfirst; simpa using hfirst
    have hmem : ∀ k ∈ k0 :: ks, k.integ = none ∧ k.rows.length ≤ (G.rows 0 0 0).length := by
      intro k hk
      rw [← hd] at hk
      obtain ⟨it, im, ip, h1, h2, h3, e⟩ := mem_blocks G hk
      subst e
      exact ⟨rfl, hrows it im ip h1 h2 h3⟩
    rw [hd] at hcur hnd
    have hc0 : curStep ((0, 0, 0) : Cur) k0 = (0, 0, 0) := by rw [hk0]; simp [curStep, Grid.blk]
    simp only [cursors] at hcur hnd
    have hall : ∀ cu ∈ curStep ((0, 0, 0) : Cur) k0 :: cursors (curStep ((0, 0, 0) : Cur) k0) ks,
        cu.1 < G.nt ∧ cu.2.1 < G.nmu ∧ cu.2.2 < G.nphi := by
      intro cu hcu; rw [hcur] at hcu; exact mem_gridCursors G hcu
    apply fill_succeeds_first k0 ks _ rfl (hmem k0 (by simp)) (by rw [hk0]; exact hc)
    · exact hall (curStep ((0, 0, 0) : Cur) k0) List.mem_cons_self
    · intro k hk; exact hmem k (by simp [hk])
    · intro cu hcu
      have hcu' : cu ∈ cursors (curStep ((0, 0, 0) : Cur) k0) ks := hcu
      refine ⟨?_, hall cu (List.mem_cons_of_mem _ hcu')⟩
      intro e
      subst e
      have := (List.nodup_cons.1 hnd).1
      rw [hc0] at this hcu'
      exact this hcu'

end T4Spec
