import Proofs.T4SpecGrid
/-! `convert` **returns** on a response printed over a full (time x mu x phi) grid (C10) — the hypothesis of
`grid_scores_attached` discharged.  -/
set_option linter.unusedVariables false
namespace T4Spec
variable {α : Type} [Num α]

/-- the rows `rs`, read from position `ie` of the block `all`, continue each other: the lower bound of a row is the upper
bound of the row printed before it (what `_check_bins` demands of the first block) -/
def RowsContig (all : List (Row α)) (ie : Nat) (rs : List (Row α)) : Prop :=
  ∀ k (hk : k < rs.length), ie + k ≠ 0 → Num.beq rs[k].lo ((all.getD (ie + k - 1) rs[k]).hi) = true

theorem fillRows_succeeds (all : List (Row α)) : ∀ (rs : List (Row α)) (ie : Nat) (b : B α),
    b.itime < b.nt → b.imu < b.nmu → b.iphi < b.nphi → ie + rs.length ≤ b.ne →
    (b.cur = (0, 0, 0) → (ie = 0 → b.ebins = []) ∧ RowsContig all ie rs) →
    ∃ b', fillRows b all ie rs = .ok b' := by
  intro rs
  induction rs with
  | nil => intro ie b _ _ _ _ _; exact ⟨b, by rw [fillRows]⟩
  | cons r rs ih =>
    intro ie b h1 h2 h3 hlen hfirst
    have hie : ie < b.ne := by simp only [List.length_cons] at hlen; omega
    by_cases hf : (b.itime == 0 && b.imu == 0 && b.iphi == 0) = true
    · have hcur : b.cur = (0, 0, 0) := by
        simp only [Bool.and_eq_true, beq_iff_eq] at hf
        unfold B.cur; rw [hf.1.1, hf.1.2, hf.2]
      obtain ⟨he, hc⟩ := hfirst hcur
      rw [fillRows]
      simp only [hf, Bool.true_and]
      have hbad : (!b.ebins.isEmpty && !Num.beq r.lo (all.getD (ie - 1) r).hi && ie != 0 ||
              !b.ebins.isEmpty && ie == 0 && !Num.beq r.lo (all.getLastD r).hi) = false := by
        by_cases h0 : ie = 0
        · subst h0; simp [he rfl]
        · have hk := hc 0 (by simp) (by omega)
          simp only [List.getElem_cons_zero, Nat.add_zero] at hk
          rw [List.getD_eq_getElem?_getD] at hk
          simp [hk, h0]
      rw [hbad]
      simp only [if_true, Bool.false_eq_true, if_false]
      rw [if_pos ⟨hie, h1, h2, h3⟩]
      apply ih
      · exact h1
      · exact h2
      · exact h3
      · simp only [List.length_cons] at hlen; show ie + 1 + rs.length ≤ b.ne; omega
      · intro _
        refine ⟨by omega, ?_⟩
        intro k hk hne
        have := hc (k + 1) (by simp; omega) (by omega)
        simp only [List.getElem_cons_succ] at this
        have e : ie + (k + 1) - 1 = ie + 1 + k - 1 := by omega
        rw [e] at this
        exact this
    · rw [fillRows]
      have hf' : (b.itime == 0 && b.imu == 0 && b.iphi == 0) = false := by simpa using hf
      simp only [hf', Bool.false_and, Bool.or_self, Bool.false_eq_true, if_false]
      rw [if_pos ⟨hie, h1, h2, h3⟩]
      apply ih
      · exact h1
      · exact h2
      · exact h3
      · simp only [List.length_cons] at hlen; show ie + 1 + rs.length ≤ b.ne; omega
      · intro hcur
        exfalso
        apply hf
        unfold B.cur at hcur
        injection hcur with a hcur
        injection hcur with b' c
        simp only [Bool.and_eq_true, beq_iff_eq]
        exact ⟨⟨a, b'⟩, c⟩

theorem cur_lt_of (b : B α) {cu : Cur} (h : b.cur = cu) (hlt : cu.1 < b.nt ∧ cu.2.1 < b.nmu ∧ cu.2.2 < b.nphi) :
    b.itime < b.nt ∧ b.imu < b.nmu ∧ b.iphi < b.nphi := by
  subst h; exact hlt

/-- blocks read under indices other than (0, 0, 0), in range, with no more rows than groups: `fill` returns -/
theorem fill_succeeds_rest : ∀ (d : List (Block α)) (b : B α),
    (∀ k ∈ d, k.integ = none ∧ k.rows.length ≤ b.ne) →
    (∀ cu ∈ cursors b.cur d, cu ≠ (0, 0, 0) ∧ cu.1 < b.nt ∧ cu.2.1 < b.nmu ∧ cu.2.2 < b.nphi) →
    ∃ b', fill b d = .ok b' := by
  intro d
  induction d with
  | nil => intro b _ _; exact ⟨b, by rw [fill]⟩
  | cons k ks ih =>
    intro b hk hcu
    obtain ⟨f1, _, f3, f4, f5, f6, _, _⟩ := stepKeys_facts b k
    obtain ⟨hne, hlt⟩ := hcu (curStep b.cur k) (by simp [cursors])
    obtain ⟨hin, hlen⟩ := hk k (by simp)
    obtain ⟨g1, g2, g3⟩ := cur_lt_of (stepKeys b k) f1 (by rw [f4, f5, f6]; exact hlt)
    obtain ⟨b1, hb1⟩ := fillRows_succeeds k.rows k.rows 0 (stepKeys b k) g1 g2 g3 (by rw [f3]; simpa using hlen)
      (fun h => absurd (f1.symm.trans h) hne)
    obtain ⟨_, c1, c2, c3, c4, c5, _⟩ := fillRows_ok k.rows k.rows 0 _ _ hb1
    rw [fill_cons, hb1]
    simp only [hin]
    apply ih
    · intro k' hk'
      obtain ⟨a, b'⟩ := hk k' (by simp [hk'])
      exact ⟨a, by rw [c2, f3]; exact b'⟩
    · intro cu hcu'
      rw [c1, f1] at hcu'
      have := hcu cu (by simp [cursors, hcu'])
      rw [c3, c4, c5, f4, f5, f6]
      exact this

/-- the same with a first block read under (0, 0, 0) whose rows continue each other -/
theorem fill_succeeds_first (k0 : Block α) (ks : List (Block α)) (b : B α) (he : b.ebins = [])
    (h0 : k0.integ = none ∧ k0.rows.length ≤ b.ne) (hc : RowsContig k0.rows 0 k0.rows)
    (hlt0 : (curStep b.cur k0).1 < b.nt ∧ (curStep b.cur k0).2.1 < b.nmu ∧ (curStep b.cur k0).2.2 < b.nphi)
    (hk : ∀ k ∈ ks, k.integ = none ∧ k.rows.length ≤ b.ne)
    (hcu : ∀ cu ∈ cursors (curStep b.cur k0) ks, cu ≠ (0, 0, 0) ∧ cu.1 < b.nt ∧ cu.2.1 < b.nmu ∧ cu.2.2 < b.nphi) :
    ∃ b', fill b (k0 :: ks) = .ok b' := by
  obtain ⟨f1, _, f3, f4, f5, f6, _, f8⟩ := stepKeys_facts b k0
  obtain ⟨g1, g2, g3⟩ := cur_lt_of (stepKeys b k0) f1 (by rw [f4, f5, f6]; exact hlt0)
  obtain ⟨b1, hb1⟩ := fillRows_succeeds k0.rows k0.rows 0 (stepKeys b k0) g1 g2 g3 (by rw [f3]; simpa using h0.2)
    (fun _ => ⟨fun _ => by rw [f8, he], hc⟩)
  obtain ⟨_, c1, c2, c3, c4, c5, _⟩ := fillRows_ok k0.rows k0.rows 0 _ _ hb1
  rw [fill_cons, hb1]
  simp only [h0.1]
  apply fill_succeeds_rest
  · intro k' hk'
    obtain ⟨a, b'⟩ := hk k' hk'
    exact ⟨a, by rw [c2, f3]; exact b'⟩
  · intro cu hcu'
    rw [c1, f1] at hcu'
    rw [c3, c4, c5, f4, f5, f6]
    exact hcu cu hcu'

theorem mem_blocks (G : Grid α) {k : Block α} (h : k ∈ G.blocks) :
    ∃ it im ip, it < G.nt ∧ im < G.nmu ∧ ip < G.nphi ∧ k = G.blk it im ip := by
  unfold Grid.blocks Grid.mid Grid.inner at h
  simp only [List.mem_flatMap, List.mem_map, List.mem_range] at h
  obtain ⟨it, h1, im, h2, ip, h3, e⟩ := h
  exact ⟨it, im, ip, h1, h2, h3, e.symm⟩

theorem mem_gridCursors (G : Grid α) {cu : Cur}
    (h : cu ∈ (List.range G.nt).flatMap fun it => (List.range G.nmu).flatMap fun im =>
      (List.range G.nphi).map fun ip => (it, im, ip)) : cu.1 < G.nt ∧ cu.2.1 < G.nmu ∧ cu.2.2 < G.nphi := by
  simp only [List.mem_flatMap, List.mem_map, List.mem_range] at h
  obtain ⟨it, h1, im, h2, ip, h3, e⟩ := h
  subst e
  exact ⟨h1, h2, h3⟩

/-- **`fill` returns on a printed grid**: every block has at most as many rows as the first one, the rows of the first
block continue each other -/
theorem fill_grid_returns (G : Grid α) (ht : 0 < G.nt) (hm : 0 < G.nmu) (hp : 0 < G.nphi)
    (hrows : ∀ it im ip, it < G.nt → im < G.nmu → ip < G.nphi → (G.rows it im ip).length ≤ (G.rows 0 0 0).length)
    (hc : RowsContig (G.rows 0 0 0) 0 (G.rows 0 0 0)) :
    ∃ b, fill { ne := (G.rows 0 0 0).length, nt := G.nt, nmu := G.nmu, nphi := G.nphi } G.blocks = .ok b := by
  have hcur := cursors_blocks G hp
  have hnd := cursors_blocks_nodup G hp
  have hfirst : G.blocks[0]? = some (G.blk 0 0 0) := by
    have := blocks_get G 0 0 0 ht hm hp
    simpa using this
  cases hd : G.blocks with
  | nil => rw [hd] at hfirst; cases hfirst
  | cons k0 ks =>
    have hk0 : k0 = G.blk 0 0 0 := by rw [hd] at hfirst; simpa using hfirst
    have hmem : ∀ k ∈ k0 :: ks, k.integ = none ∧ k.rows.length ≤ (G.rows 0 0 0).length := by
      intro k hk
      rw [← hd] at hk
      obtain ⟨it, im, ip, h1, h2, h3, e⟩ := mem_blocks G hk
      subst e
      exact ⟨rfl, hrows it im ip h1 h2 h3⟩
    rw [hd] at hcur hnd
    have hc0 : curStep ((0, 0, 0) : Cur) k0 = (0, 0, 0) := by rw [hk0]; simp [curStep, Grid.blk]
    simp only [cursors] at hcur hnd
    have hall : ∀ cu ∈ curStep ((0, 0, 0) : Cur) k0 :: cursors (curStep ((0, 0, 0) : Cur) k0) ks,
        cu.1 < G.nt ∧ cu.2.1 < G.nmu ∧ cu.2.2 < G.nphi := by
      intro cu hcu; rw [hcur] at hcu; exact mem_gridCursors G hcu
    apply fill_succeeds_first k0 ks _ rfl (hmem k0 (by simp)) (by rw [hk0]; exact hc)
    · exact hall (curStep ((0, 0, 0) : Cur) k0) List.mem_cons_self
    · intro k hk; exact hmem k (by simp [hk])
    · intro cu hcu
      have hcu' : cu ∈ cursors (curStep ((0, 0, 0) : Cur) k0) ks := hcu
      refine ⟨?_, hall cu (List.mem_cons_of_mem _ hcu')⟩
      intro e
      subst e
      have := (List.nodup_cons.1 hnd).1
      rw [hc0] at this hcu'
      exact this hcu'

/-! ### the mu and phi edges collected by `fill` -/

def muKey (c : Cur) (k : Block α) : List α :=
  match k.mu with | some s => if (curStep c k).1 == 0 then [s.a] else [] | none => []
def phiKey (c : Cur) (k : Block α) : List α :=
  match k.phi with | some s => if (curStep c k).1 == 0 && (curStep c k).2.1 == 0 then [s.a] else [] | none => []

def muKeys (c : Cur) : List (Block α) → List α
  | [] => []
  | k :: ks => muKey c k ++ muKeys (curStep c k) ks
def phiKeys (c : Cur) : List (Block α) → List α
  | [] => []
  | k :: ks => phiKey c k ++ phiKeys (curStep c k) ks

theorem stepKeys_mubins (b : B α) (k : Block α) : (stepKeys b k).mubins = b.mubins ++ muKey b.cur k := by
  unfold stepKeys muKey curStep B.cur
  cases k.time <;> cases k.mu <;> cases k.phi <;> simp <;> split <;> simp

theorem stepKeys_phibins (b : B α) (k : Block α) : (stepKeys b k).phibins = b.phibins ++ phiKey b.cur k := by
  unfold stepKeys phiKey curStep B.cur
  cases k.time <;> cases k.mu <;> cases k.phi <;> simp <;> split <;> simp

theorem fill_keybins : ∀ (d : List (Block α)) (b b' : B α), fill b d = .ok b' →
    b'.mubins = b.mubins ++ muKeys b.cur d ∧ b'.phibins = b.phibins ++ phiKeys b.cur d := by
  intro d
  induction d with
  | nil => intro b b' h; rw [fill] at h; cases h; simp [muKeys, phiKeys]
  | cons k ks ih =>
    intro b b' h
    rw [fill_cons] at h
    cases hr : fillRows (stepKeys b k) k.rows 0 k.rows with
    | error e => rw [hr] at h; cases h
    | ok b1 =>
      rw [hr] at h
      obtain ⟨_, c1, _, _, _, _, _, c8, c9, _⟩ := fillRows_ok k.rows k.rows 0 _ _ hr
      obtain ⟨f1, _⟩ := stepKeys_facts b k
      have finish : ∀ b2 : B α, b2.mubins = b1.mubins → b2.phibins = b1.phibins → b2.cur = b1.cur →
          fill b2 ks = .ok b' →
          b'.mubins = b.mubins ++ muKeys b.cur (k :: ks) ∧ b'.phibins = b.phibins ++ phiKeys b.cur (k :: ks) := by
        intro b2 e1 e2 e3 hf
        obtain ⟨i1, i2⟩ := ih b2 b' hf
        rw [i1, i2, e1, e2, e3, c1, c8, c9, f1, stepKeys_mubins, stepKeys_phibins]
        simp [muKeys, phiKeys, List.append_assoc]
      cases hi : k.integ with
      | none => rw [hi] at h; exact finish b1 rfl rfl rfl h
      | some v =>
        rw [hi] at h
        simp only at h
        split at h
        · exact finish { b1 with integ := ((b1.itime, b1.imu, b1.iphi), v) :: b1.integ } rfl rfl rfl h
        · cases h

def muOf (p : Cur × Block α) : List α :=
  match p.2.mu with | some s => if p.1.1 == 0 then [s.a] else [] | none => []
def phiOf (p : Cur × Block α) : List α :=
  match p.2.phi with | some s => if p.1.1 == 0 && p.1.2.1 == 0 then [s.a] else [] | none => []

theorem muKeys_zip (c : Cur) (d : List (Block α)) : muKeys c d = ((cursors c d).zip d).flatMap muOf := by
  induction d generalizing c with
  | nil => rfl
  | cons k ks ih => simp only [muKeys, cursors, List.zip_cons_cons, List.flatMap_cons, ih]; rfl

theorem phiKeys_zip (c : Cur) (d : List (Block α)) : phiKeys c d = ((cursors c d).zip d).flatMap phiOf := by
  induction d generalizing c with
  | nil => rfl
  | cons k ks ih => simp only [phiKeys, cursors, List.zip_cons_cons, List.flatMap_cons, ih]; rfl

theorem zip_flatMap {ι β γ : Type} (l : List ι) (f : ι → List β) (g : ι → List γ)
    (h : ∀ x ∈ l, (f x).length = (g x).length) :
    (l.flatMap f).zip (l.flatMap g) = l.flatMap fun x => (f x).zip (g x) := by
  induction l with
  | nil => rfl
  | cons a r ih =>
    simp only [List.flatMap_cons]
    rw [List.zip_append (h a (by simp)), ih (fun x hx => h x (by simp [hx]))]

theorem zip_self {ι : Type} (l : List ι) : l.zip l = l.map fun x => (x, x) := by
  induction l with
  | nil => rfl
  | cons a r ih => simp [ih]

/-- the blocks of a printed grid, each with the indices it is read under -/
theorem zip_grid (G : Grid α) (hn : 0 < G.nphi) :
    (cursors (0, 0, 0) G.blocks).zip G.blocks =
      (List.range G.nt).flatMap fun it => (List.range G.nmu).flatMap fun im =>
        (List.range G.nphi).map fun ip => ((it, im, ip), G.blk it im ip) := by
  rw [cursors_blocks G hn]
  unfold Grid.blocks Grid.mid Grid.inner
  rw [zip_flatMap _ _ _ (fun it _ => by simp [List.length_flatMap])]
  congr 1
  funext it
  rw [zip_flatMap _ _ _ (fun im _ => by simp)]
  congr 1
  funext im
  rw [List.zip_map, zip_self, List.map_map]
  rfl

theorem flatMap_single_map {ι γ : Type} (l : List ι) (f : ι → γ) : (l.flatMap fun x => [f x]) = l.map f := by
  induction l with
  | nil => rfl
  | cons a r ih => simp [List.flatMap_cons, ih]

theorem flatMap_range_head {γ : Type} (n : Nat) (hn : 0 < n) (f : Nat → List γ) (h : ∀ i, 1 ≤ i → f i = []) :
    (List.range n).flatMap f = f 0 := by
  have hr : List.range n = 0 :: List.range' 1 (n - 1) := by
    rw [List.range_eq_range']
    have : n = (n - 1) + 1 := by omega
    conv => lhs; rw [this, List.range'_succ]
  rw [hr, List.flatMap_cons]
  have : (List.range' 1 (n - 1)).flatMap f = [] := by
    apply List.flatMap_eq_nil_iff.2
    intro x hx
    exact h x (List.mem_range'_1.1 hx).1
  rw [this, List.append_nil]

theorem muOf_grid (G : Grid α) (it im ip : Nat) :
    muOf ((it, im, ip), G.blk it im ip) = if ip = 0 then (if it = 0 then [(G.mstep im).1] else []) else [] := by
  unfold muOf Grid.blk
  by_cases h : ip = 0 <;> by_cases h' : it = 0 <;> simp [h, h']

theorem phiOf_grid (G : Grid α) (it im ip : Nat) :
    phiOf ((it, im, ip), G.blk it im ip) = if it = 0 ∧ im = 0 then [(G.pstep ip).1] else [] := by
  unfold phiOf Grid.blk
  by_cases h : it = 0 <;> by_cases h' : im = 0 <;> simp [h, h']

/-- the mu edges `fill` collects on a printed grid: the first printed bound of every mu zone, in order -/
theorem muKeys_grid (G : Grid α) (ht : 0 < G.nt) (hm : 0 < G.nmu) (hp : 0 < G.nphi) :
    muKeys (0, 0, 0) G.blocks = (List.range G.nmu).map fun im => (G.mstep im).1 := by
  rw [muKeys_zip, zip_grid G hp, List.flatMap_assoc]
  have inner : ∀ it im, ((List.range G.nphi).map fun ip => ((it, im, ip), G.blk it im ip)).flatMap muOf =
      if it = 0 then [(G.mstep im).1] else [] := by
    intro it im
    rw [List.flatMap_map]
    rw [flatMap_range_head G.nphi hp _ (fun i hi => by rw [muOf_grid]; simp; omega)]
    rw [muOf_grid]; simp
  rw [flatMap_range_head G.nt ht]
  · rw [List.flatMap_assoc]
    simp only [inner, if_true]
    rw [flatMap_single_map]
  · intro it hit
    rw [List.flatMap_assoc]
    apply List.flatMap_eq_nil_iff.2
    intro im _
    rw [inner, if_neg (by omega)]

/-- the phi edges `fill` collects on a printed grid: the first printed bound of every phi zone, in order -/
theorem phiKeys_grid (G : Grid α) (ht : 0 < G.nt) (hm : 0 < G.nmu) (hp : 0 < G.nphi) :
    phiKeys (0, 0, 0) G.blocks = (List.range G.nphi).map fun ip => (G.pstep ip).1 := by
  rw [phiKeys_zip, zip_grid G hp, List.flatMap_assoc]
  have inner : ∀ it im, ((List.range G.nphi).map fun ip => ((it, im, ip), G.blk it im ip)).flatMap phiOf =
      if it = 0 ∧ im = 0 then (List.range G.nphi).map fun ip => (G.pstep ip).1 else [] := by
    intro it im
    rw [List.flatMap_map]
    by_cases h : it = 0 ∧ im = 0
    · simp only [phiOf_grid, h, and_self, if_true]
      rw [flatMap_single_map]
    · simp only [phiOf_grid, h, if_false]
      simp
  rw [flatMap_range_head G.nt ht]
  · rw [List.flatMap_assoc, flatMap_range_head G.nmu hm]
    · rw [inner]; simp
    · intro im him; rw [inner, if_neg (by omega)]
  · intro it hit
    rw [List.flatMap_assoc]
    apply List.flatMap_eq_nil_iff.2
    intro im _
    rw [inner, if_neg (by omega)]

theorem addLast_returns (bins : List α) (f l : Step α) : ∃ r, addLast bins (some f) (some l) = .ok r := by
  unfold addLast
  split
  · split
    · exact ⟨_, rfl⟩
    · exact ⟨_, rfl⟩
  · exact ⟨_, rfl⟩

/-- the three blocks `add_last_bins` looks at, counted from the end of a printed grid -/
theorem negBlock_grid (G : Grid α) (a b c : Nat) (ha : G.nt = a + 1) (hb : G.nmu = b + 1) (hc : G.nphi = c + 1) :
    negBlock G.blocks 1 = some (G.blk a b c) ∧ negBlock G.blocks G.nphi = some (G.blk a b 0) ∧
    negBlock G.blocks (G.nphi * G.nmu) = some (G.blk a 0 0) := by
  have hM : G.nmu * G.nphi = b * G.nphi + G.nphi := by rw [hb, Nat.succ_mul]
  have hN : G.nt * (G.nmu * G.nphi) = a * (G.nmu * G.nphi) + G.nmu * G.nphi := by rw [ha, Nat.succ_mul]
  have hlen := blocks_length G
  have hpos : 0 < G.nmu * G.nphi := Nat.mul_pos (by omega) (by omega)
  unfold negBlock
  rw [hlen]
  refine ⟨?_, ?_, ?_⟩
  · rw [if_neg (by rw [hN]; omega)]
    have := blocks_get G a b c (by omega) (by omega) (by omega)
    have e : G.nt * (G.nmu * G.nphi) - 1 = a * (G.nmu * G.nphi) + (b * G.nphi + c) := by rw [hN, hM]; omega
    rw [e]; exact this
  · rw [if_neg (by rw [hN, hM]; omega)]
    have := blocks_get G a b 0 (by omega) (by omega) (by omega)
    have e : G.nt * (G.nmu * G.nphi) - G.nphi = a * (G.nmu * G.nphi) + (b * G.nphi + 0) := by rw [hN, hM]; omega
    rw [e]; exact this
  · rw [if_neg (by rw [hN, Nat.mul_comm G.nphi G.nmu]; omega)]
    have := blocks_get G a 0 0 (by omega) (by omega) (by omega)
    have e : G.nt * (G.nmu * G.nphi) - G.nphi * G.nmu = a * (G.nmu * G.nphi) + (0 * G.nphi + 0) := by
      rw [hN, Nat.mul_comm G.nphi G.nmu]; omega
    rw [e]; exact this

/-- **`convert` returns on a printed grid**: every block has at most as many rows as the first one, the last block has
a row, the rows of the first block continue each other -/
theorem convert_grid_returns (G : Grid α) (ht : 0 < G.nt) (hm : 0 < G.nmu) (hp : 0 < G.nphi)
    (hrows : ∀ it im ip, it < G.nt → im < G.nmu → ip < G.nphi → (G.rows it im ip).length ≤ (G.rows 0 0 0).length)
    (hlast : G.rows (G.nt - 1) (G.nmu - 1) (G.nphi - 1) ≠ [])
    (hc : RowsContig (G.rows 0 0 0) 0 (G.rows 0 0 0)) :
    ∃ sp, convert G.blocks = .ok sp := by
  obtain ⟨a, ha⟩ : ∃ a, G.nt = a + 1 := ⟨G.nt - 1, by omega⟩
  obtain ⟨b, hb⟩ : ∃ b, G.nmu = b + 1 := ⟨G.nmu - 1, by omega⟩
  obtain ⟨c, hc'⟩ : ∃ c, G.nphi = c + 1 := ⟨G.nphi - 1, by omega⟩
  obtain ⟨n1, n2, n3⟩ := negBlock_grid G a b c ha hb hc'
  obtain ⟨bb, hfill⟩ := fill_grid_returns G ht hm hp hrows hc
  obtain ⟨km, kp⟩ := fill_keybins _ _ _ hfill
  have hmu : bb.mubins = (List.range G.nmu).map fun im => (G.mstep im).1 := by
    rw [km]; show [] ++ muKeys (0, 0, 0) G.blocks = _; rw [List.nil_append, muKeys_grid G ht hm hp]
  have hphi : bb.phibins = (List.range G.nphi).map fun ip => (G.pstep ip).1 := by
    rw [kp]; show [] ++ phiKeys (0, 0, 0) G.blocks = _; rw [List.nil_append, phiKeys_grid G ht hm hp]
  have hnm : nmub bb = G.nmu := by
    unfold nmub; rw [hmu]
    have : ((List.range G.nmu).map fun im => (G.mstep im).1).isEmpty = false := by
      rw [hb, List.range_succ]; simp
    rw [this]; simp
  have hnp : nphib bb = G.nphi := by
    unfold nphib; rw [hphi]
    have : ((List.range G.nphi).map fun ip => (G.pstep ip).1).isEmpty = false := by
      rw [hc', List.range_succ]; simp
    rw [this]; simp
  have hhead : G.blocks.head? = some (G.blk 0 0 0) := by
    have := blocks_get G 0 0 0 ht hm hp
    rw [List.head?_eq_getElem?]
    simpa using this
  have hlastb : G.blocks.getLast? = some (G.blk a b c) := by
    rw [List.getLast?_eq_getElem?]
    have := n1
    unfold negBlock at this
    rw [if_neg (by rw [blocks_length, ha, hb, hc']; simp [Nat.succ_mul, Nat.mul_succ])] at this
    exact this
  have he : ∃ eb, eOf G.blocks bb = .ok eb := by
    unfold eOf
    rw [hlastb]
    simp only [Option.bind_some]
    have : (G.blk a b c).rows ≠ [] := by
      have e1 : a = G.nt - 1 := by omega
      have e2 : b = G.nmu - 1 := by omega
      have e3 : c = G.nphi - 1 := by omega
      rw [e1, e2, e3]; exact hlast
    obtain ⟨r, hr⟩ : ∃ r, (G.blk a b c).rows.getLast? = some r := ⟨_, List.getLast?_eq_some_getLast this⟩
    rw [hr]
    exact ⟨_, rfl⟩
  have htO : ∃ tb, tOf G.blocks bb = .ok tb := by
    unfold tOf
    rw [hhead, hnp, hnm, n3]
    simp only [Option.bind_some, Grid.blk, and_self, if_true, Option.isSome_some]
    exact addLast_returns _ _ _
  have hmO : ∃ mb, mOf G.blocks bb = .ok mb := by
    unfold mOf
    rw [hhead, hnp, n2]
    simp only [Option.bind_some, Grid.blk, if_true, Option.isSome_some]
    exact addLast_returns _ _ _
  have hpO : ∃ pb, pOf G.blocks bb = .ok pb := by
    unfold pOf
    rw [hhead, n1]
    simp only [Option.bind_some, Grid.blk, Option.isSome_some, if_true]
    exact addLast_returns _ _ _
  obtain ⟨eb, he⟩ := he
  obtain ⟨tb, htO⟩ := htO
  obtain ⟨mb, hmO⟩ := hmO
  obtain ⟨pb, hpO⟩ := hpO
  rw [convert_eq, nbBins_blocks G ht hm hp]
  simp only [bind, Except.bind]
  rw [hfill]
  simp only []
  rw [he]
  simp only []
  rw [htO]
  simp only []
  rw [hmO]
  simp only []
  rw [hpO]
  exact ⟨_, rfl⟩

end T4Spec
