import Proofs.XReal
import Mathlib.Tactic.FieldSimp
import Mathlib.Tactic.Ring
import Mathlib.Tactic.Positivity
/-! Arithmetic facts on `XReal` shared by C05, C07, C08. -/
namespace XReal

@[simp] theorem lt_fin_fin (x y : ℝ) : lt (fin x) (fin y) = decide (x < y) := rfl
@[simp] theorem le_fin_fin (x y : ℝ) : le (fin x) (fin y) = decide (x ≤ y) := rfl
@[simp] theorem lt_pinf_any (a : XReal) : lt pinf a = false := by cases a <;> rfl
@[simp] theorem lt_any_ninf (a : XReal) : lt a ninf = false := by cases a <;> rfl
@[simp] theorem lt_fin_pinf (x : ℝ) : lt (fin x) pinf = true := rfl
@[simp] theorem lt_ninf_fin (x : ℝ) : lt ninf (fin x) = true := rfl
@[simp] theorem lt_ninf_pinf : lt ninf pinf = true := rfl
@[simp] theorem lt_nan_any (a : XReal) : lt nan a = false := nan_lt a
@[simp] theorem lt_any_nan (a : XReal) : lt a nan = false := lt_nan a
@[simp] theorem sqrt_fin (x : ℝ) : sqrt (fin x) = if x < 0 then nan else fin (Real.sqrt x) := rfl
@[simp] theorem add_fin_fin (x y : ℝ) : add (fin x) (fin y) = fin (x + y) := rfl
@[simp] theorem mul_fin_fin (x y : ℝ) : mul (fin x) (fin y) = fin (x * y) := rfl
@[simp] theorem neg_fin (x : ℝ) : neg (fin x) = fin (-x) := rfl
@[simp] theorem sub_fin_fin (x y : ℝ) : sub (fin x) (fin y) = fin (x - y) := by simp [sub, sub_eq_add_neg]
@[simp] theorem abs_fin (x : ℝ) : abs (fin x) = fin |x| := rfl
theorem div_fin_fin (x y : ℝ) (hy : y ≠ 0) : div (fin x) (fin y) = fin (x / y) := by simp [div, hy]

/-- "not negative": `x < 0` is false (true of NaN too, as in `not (error < 0).any()`) -/
def NotNeg (x : XReal) : Prop := lt x (fin 0) = false

theorem notNeg_fin {x : ℝ} : NotNeg (fin x) ↔ 0 ≤ x := by simp [NotNeg]
@[simp] theorem notNeg_nan : NotNeg nan := rfl
@[simp] theorem notNeg_pinf : NotNeg pinf := rfl
@[simp] theorem not_notNeg_ninf : ¬ NotNeg ninf := by simp [NotNeg]

theorem notNeg_sqrt (x : XReal) : NotNeg (sqrt x) := by
  cases x with
  | nan => rfl
  | ninf => rfl
  | pinf => rfl
  | fin x =>
    rw [sqrt_fin]
    split
    · rfl
    · exact notNeg_fin.2 (Real.sqrt_nonneg x)

theorem notNeg_abs (x : XReal) : NotNeg (abs x) := by
  cases x with
  | nan => rfl
  | ninf => rfl
  | pinf => rfl
  | fin x => exact notNeg_fin.2 (abs_nonneg x)

theorem notNeg_mul {a b : XReal} (ha : NotNeg a) (hb : NotNeg b) : NotNeg (mul a b) := by
  cases a with
  | nan => cases b <;> rfl
  | ninf => exact absurd ha not_notNeg_ninf
  | pinf =>
    cases b with
    | nan => rfl
    | ninf => exact absurd hb not_notNeg_ninf
    | pinf => rfl
    | fin y =>
      have hy := notNeg_fin.1 hb
      show NotNeg (if y = 0 then nan else if 0 < y then pinf else ninf)
      split
      · rfl
      · rename_i h; rw [if_pos (lt_of_le_of_ne hy (Ne.symm h))]; rfl
  | fin x =>
    have hx := notNeg_fin.1 ha
    cases b with
    | nan => rfl
    | ninf => exact absurd hb not_notNeg_ninf
    | pinf =>
      show NotNeg (if x = 0 then nan else if 0 < x then pinf else ninf)
      split
      · rfl
      · rename_i h; rw [if_pos (lt_of_le_of_ne hx (Ne.symm h))]; rfl
    | fin y => exact notNeg_fin.2 (mul_nonneg hx (notNeg_fin.1 hb))

theorem notNeg_div {a b : XReal} (ha : NotNeg a) (hb : NotNeg b) : NotNeg (div a b) := by
  cases a with
  | nan => cases b <;> rfl
  | ninf => exact absurd ha not_notNeg_ninf
  | pinf =>
    cases b with
    | nan => rfl
    | ninf => exact absurd hb not_notNeg_ninf
    | pinf => rfl
    | fin y =>
      show NotNeg (if 0 ≤ y then pinf else ninf)
      rw [if_pos (notNeg_fin.1 hb)]; rfl
  | fin x =>
    have hx := notNeg_fin.1 ha
    cases b with
    | nan => rfl
    | ninf => exact absurd hb not_notNeg_ninf
    | pinf => exact notNeg_fin.2 (le_refl 0)
    | fin y =>
      have hy := notNeg_fin.1 hb
      show NotNeg (if y = 0 then (if x = 0 then nan else if 0 < x then pinf else ninf) else fin (x / y))
      split
      · split
        · rfl
        · rename_i h; rw [if_pos (lt_of_le_of_ne hx (Ne.symm h))]; rfl
      · exact notNeg_fin.2 (div_nonneg hx hy)

end XReal
