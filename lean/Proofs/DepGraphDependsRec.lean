import Proofs.DepGraphDepsRec
import Proofs.Use
/-! `depends(x, y, recurse=True)` (C16): the breadth-first search by waves with a `seen` set.
* `dependsLoop_spec`: when the loop answers, the answer is "`y` can be reached from `x` in one step or more".
* `dependsLoop_total`: with `size + 1` rounds the loop always answers — on cyclic graphs too (every round that does
  not answer adds at least one new position to `seen`, and the positions in `seen` are distinct and `< size`).
The pinned loop had no `seen` set: on a cycle that does not lead to `y` the wave never became empty (defect A32). -/
set_option linter.unusedVariables false
namespace DG
open Relation

/-- one wave: the successors of every position of the wave -/
theorem wave_ok {g : G} (hg : GInv g) (deps1 : List Nat) (hlt : ∀ u ∈ deps1, u < g.size) (acc : List Nat) :
    deps1.foldlM (fun acc i => do let s ← g.edgesAt i; pure (acc ++ s)) acc
      = .ok (acc ++ deps1.flatMap (edgesP g)) := by
  induction deps1 generalizing acc with
  | nil => simp [List.foldlM, pure, Except.pure]
  | cons a r ih =>
    have ha : a < g.size := hlt a (by simp)
    rw [List.foldlM_cons]
    rw [edgesAt_eq hg ha]
    show List.foldlM _ (acc ++ edgesP g a) r = _
    rw [ih (fun u hu => hlt u (by simp [hu]))]
    simp [List.flatMap_cons, List.append_assoc]

structure WInv (g : G) (i j : Nat) (seen deps1 : List Nat) : Prop where
  reach : ∀ u, u ∈ seen ∨ u ∈ deps1 → TransGen (PEdge g) i u
  closed : ∀ u ∈ seen, ∀ w, PEdge g u w → w ∈ seen ∨ w ∈ deps1
  start : ∀ w, PEdge g i w → w ∈ seen ∨ w ∈ deps1
  notseen : j ∉ seen
  nodup : (seen ++ deps1).Nodup

theorem nodup_sub_length {l U : List Nat} (hnd : l.Nodup) (hsub : ∀ t ∈ l, t ∈ U) : l.length ≤ U.length := by
  induction l generalizing U with
  | nil => simp
  | cons a l ih =>
    have ha : a ∈ U := hsub a (by simp)
    have hnd' := List.nodup_cons.1 hnd
    have := ih (U := U.erase a) hnd'.2 (by
      intro t ht
      have htU := hsub t (by simp [ht])
      have hne : t ≠ a := fun e => hnd'.1 (e ▸ ht)
      exact (List.mem_erase_of_ne hne).2 htU)
    rw [List.length_erase_of_mem ha] at this
    have hpos : 0 < U.length := List.length_pos_of_mem ha
    simp only [List.length_cons]
    omega

theorem nodup_lt_length {l : List Nat} {n : Nat} (hnd : l.Nodup) (hlt : ∀ u ∈ l, u < n) : l.length ≤ n := by
  have := nodup_sub_length (U := List.range n) hnd (fun u hu => List.mem_range.2 (hlt u hu))
  simpa using this

/-- the invariant after one wave -/
theorem winv_step {g : G} (hg : GInv g) {i j : Nat} {seen deps1 : List Nat} (hinv : WInv g i j seen deps1)
    (hj : j ∉ deps1) :
    WInv g i j (seen ++ deps1) ((deps1.flatMap (edgesP g)).eraseDups.filter (· ∉ seen ++ deps1)) := by
  have hmemnx : ∀ w, w ∈ (deps1.flatMap (edgesP g)).eraseDups.filter (· ∉ seen ++ deps1) ↔
      (∃ u ∈ deps1, PEdge g u w) ∧ w ∉ seen ++ deps1 := by
    intro w
    simp only [List.mem_filter, List.mem_eraseDups, List.mem_flatMap, decide_eq_true_eq, PEdge]
  constructor
  · intro u hu
    rcases hu with hu | hu
    · exact hinv.reach u (List.mem_append.1 hu)
    · obtain ⟨⟨v, hv, hvw⟩, _⟩ := (hmemnx u).1 hu
      exact TransGen.tail (hinv.reach v (Or.inr hv)) hvw
  · intro u hu w huw
    by_cases hws : w ∈ seen ++ deps1
    · exact Or.inl hws
    · rcases List.mem_append.1 hu with hu | hu
      · rcases hinv.closed u hu w huw with h | h
        · exact absurd (List.mem_append_left _ h) hws
        · exact absurd (List.mem_append_right _ h) hws
      · exact Or.inr ((hmemnx w).2 ⟨⟨u, hu, huw⟩, hws⟩)
  · intro w hw
    rcases hinv.start w hw with h | h
    · exact Or.inl (List.mem_append_left _ h)
    · exact Or.inl (List.mem_append_right _ h)
  · intro h
    rcases List.mem_append.1 h with h | h
    · exact hinv.notseen h
    · exact hj h
  · rw [List.nodup_append]
    refine ⟨hinv.nodup, (UseM.nodup_eraseDups _).filter _, ?_⟩
    intro a ha b hb e
    subst e
    exact ((hmemnx a).1 hb).2 ha

/-- **partial correctness**: an answer of the loop is the truth -/
theorem dependsLoop_spec (g : G) (hg : GInv g) (i j : Nat) :
    ∀ (fuel : Nat) (seen deps1 : List Nat) (b : Bool), WInv g i j seen deps1 →
      dependsLoop g j fuel seen deps1 = .ok b → (b = true ↔ TransGen (PEdge g) i j) := by
  intro fuel
  induction fuel with
  | zero => intro seen deps1 b _ h; rw [dependsLoop] at h; cases h
  | succ fuel ih =>
    intro seen deps1 b hinv h
    rw [dependsLoop] at h
    split at h
    · rename_i he
      have hde : deps1 = [] := by simpa using he
      subst hde
      cases h
      -- nothing left to visit: everything reachable has been seen, and `j` has not
      have key : ∀ u, TransGen (PEdge g) i u → u ∈ seen := by
        intro u hu
        induction hu with
        | single e => rcases hinv.start _ e with h | h; exact h; cases h
        | tail _ e ih => rcases hinv.closed _ ih _ e with h | h; exact h; cases h
      constructor
      · intro h; cases h
      · intro hr; exact absurd (key j hr) hinv.notseen
    · split at h
      · rename_i _ hj
        cases h
        exact ⟨fun _ => hinv.reach j (Or.inr hj), fun _ => rfl⟩
      · rename_i _ hj
        have hlt : ∀ u ∈ deps1, u < g.size := fun u hu => (transGen_lt hg (hinv.reach u (Or.inr hu))).2
        have hw := wave_ok hg deps1 hlt []
        simp only [List.nil_append] at hw
        simp only [bind, Except.bind] at h hw
        rw [hw] at h
        exact ih _ _ b (winv_step hg hinv hj) h

/-- **totality**: with more rounds than `size - |seen|` the loop answers (it never runs out of rounds) -/
theorem dependsLoop_total (g : G) (hg : GInv g) (i j : Nat) :
    ∀ (fuel : Nat) (seen deps1 : List Nat), WInv g i j seen deps1 → g.size < fuel + seen.length →
      ∃ b, dependsLoop g j fuel seen deps1 = .ok b := by
  intro fuel
  induction fuel with
  | zero =>
    intro seen deps1 hinv hf
    have hlt : ∀ u ∈ seen, u < g.size := fun u hu => (transGen_lt hg (hinv.reach u (Or.inl hu))).2
    have := nodup_lt_length (List.nodup_append.1 hinv.nodup).1 hlt
    omega
  | succ fuel ih =>
    intro seen deps1 hinv hf
    rw [dependsLoop]
    split
    · exact ⟨false, rfl⟩
    · rename_i hne
      split
      · exact ⟨true, rfl⟩
      · rename_i hj
        have hlt : ∀ u ∈ deps1, u < g.size := fun u hu => (transGen_lt hg (hinv.reach u (Or.inr hu))).2
        have hw := wave_ok hg deps1 hlt []
        simp only [List.nil_append] at hw
        simp only [bind, Except.bind] at hw ⊢
        rw [hw]
        apply ih _ _ (winv_step hg hinv hj)
        have hpos : 0 < deps1.length := by
          cases deps1 with
          | nil => simp at hne
          | cons a r => simp
        rw [List.length_append]
        omega

theorem winv_init {g : G} (hg : GInv g) (i j : Nat) :
    WInv g i j [] (edgesP g i).eraseDups := by
  refine ⟨?_, ?_, ?_, by simp, ?_⟩
  · intro u hu
    rcases hu with hu | hu
    · cases hu
    · exact TransGen.single (by simpa [PEdge, List.mem_eraseDups] using hu)
  · intro u hu; cases hu
  · intro w hw; exact Or.inr (by simpa [PEdge, List.mem_eraseDups] using hw)
  · simpa using UseM.nodup_eraseDups _

/-- **`depends(x, y, recurse=True)` always answers, and answers "`y` can be reached from `x` in one step or more"** —
on every graph a history can build, cyclic ones included. -/
theorem dependsRec_spec {g : G} (hg : GInv g) {x y : Nat} (hx : g.Node x) (hy : g.Node y) :
    ∃ b, g.dependsRec x y = .ok b ∧ (b = true ↔ TransGen g.Edge x y) := by
  obtain ⟨i, hi, hix⟩ := hg.indexOf_spec hx
  obtain ⟨j, hj, hjy⟩ := hg.indexOf_spec hy
  have hil : i < g.size := lt_of_getElem?_some hix
  have hinv := winv_init hg i j
  obtain ⟨b, hb⟩ := dependsLoop_total g hg i j (g.size + 1) [] _ hinv (by simp)
  refine ⟨b, ?_, ?_⟩
  · unfold G.dependsRec
    rw [hi, hj]
    simp only [bind, Except.bind]
    rw [edgesAt_eq hg hil]
    exact hb
  · rw [dependsLoop_spec g hg i j _ _ _ b hinv hb, transGen_edge_iff hg]
    constructor
    · intro h; exact ⟨i, j, hix, hjy, h⟩
    · rintro ⟨a, c, ha, hc, hp⟩
      have h1 := hg.pos_unique ha hix
      have h2 := hg.pos_unique hc hjy
      subst h1; subst h2; exact hp

end DG
