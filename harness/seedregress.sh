#!/bin/sh
# usage: harness/seedregress.sh [tier] [jobs]   — replays every kept seeded change (seeded/*/patch.diff) against the
# current checks, each on its own scratch copy of /repo HEAD (harness/seedtest.sh): each must give a VIOLATION line for
# its property.  One line per change, then a summary; exit 1 if one is missed or no longer applies.
cd "$(dirname "$0")/.." || exit 2
TIER="${1:-quick}"; JOBS="${2:-4}"
OUT="$(mktemp -d /tmp/seedregress.XXXXXX)"
ls -d seeded/*/ | xargs -P "$JOBS" -I{} sh -c '
  d={}; id=$(basename "$d"); prop=${id%%-*}
  out=$(harness/seedtest.sh "$prop" "$d/patch.diff" "'"$TIER"'" 2>&1)
  if echo "$out" | grep -q "^VIOLATION property=$prop "; then echo "$id detected"
  elif echo "$out" | grep -q "patch failed\|does not apply"; then echo "$id PATCH-DOES-NOT-APPLY"
  else echo "$id MISSED"; fi > "'"$OUT"'/$id.txt"'
cat "$OUT"/*.txt
N=$(cat "$OUT"/*.txt | wc -l); BAD=$(cat "$OUT"/*.txt | grep -vc " detected$")
rm -rf "$OUT"
echo "seeded changes: $N, not detected: $BAD"
[ "$BAD" = 0 ]
