"""Float exchange with the Lean driver: IEEE-754 binary64 bit patterns as decimal strings, NaN canonicalised."""
import math
import struct


def bits(x):
    x = float(x)
    if math.isnan(x):
        return 'nan'
    return str(struct.unpack('<Q', struct.pack('<d', x))[0])


def unbits(s):
    if s == 'nan':
        return float('nan')
    return struct.unpack('<d', struct.pack('<Q', int(s)))[0]


def ulps(a, b):
    """distance in units in the last place between two doubles given as bit strings (inf if incomparable)"""
    if a == b:
        return 0
    if a == 'nan' or b == 'nan':
        return float('inf')
    def key(s):
        i = int(s)
        return i if i < (1 << 63) else (1 << 63) - i
    return abs(key(a) - key(b))
