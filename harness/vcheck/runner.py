"""Common runner of the valjean verification checks (see /verif/DESIGN.md, sections 1-2).

One run of ``./check Cxx --tier T``:

1. Lean obligations: ``lake build`` of /verif/lean, forbidden-token scan of the Lean sources,
   ``#print axioms`` audit of the property theorems (``lean/Audit/Cxx.lean``).
2. Correspondence: every generated case goes through the real valjean code (``plugin.run_impl``) and
   through the compiled Lean model (``vjdriver``); canonical observations are compared.
3. Oracle: the property's clauses evaluated on the implementation's observation.
4. Decision table of DESIGN.md section 1; evidence written to ``evidence/Cxx.json``.
"""
import argparse
import hashlib
import importlib
import json
import os
import random
import re
import subprocess
import sys
import time
import traceback

VERIF = os.path.dirname(os.path.dirname(os.path.dirname(os.path.abspath(__file__))))
LEAN = os.path.join(VERIF, 'lean')
REPO = os.environ.get('VERIF_REPO', '/repo')
ALLOWED_AXIOMS = {'propext', 'Classical.choice', 'Quot.sound'}
FORBIDDEN = re.compile(r'\b(sorry|admit|native_decide|bv_decide|implemented_by|unsafe)\b|^\s*axiom\s|maxHeartbeats\s+0\b',
                       re.M)


class HarnessError(Exception):
    """Internal error of the machinery (exit 2, never a VIOLATION)."""


# ------------------------------------------------------------------------------------------------
# Lean side
# ------------------------------------------------------------------------------------------------

def strip_lean_comments(src):
    out, i, depth, n = [], 0, 0, len(src)
    while i < n:
        if src.startswith('/-', i):
            depth += 1
            i += 2
        elif depth and src.startswith('-/', i):
            depth -= 1
            i += 2
        elif depth:
            i += 1
        elif src.startswith('--', i):
            j = src.find('\n', i)
            i = n if j < 0 else j
        elif src[i] == '"':
            j = i + 1
            while j < n and src[j] != '"':
                j += 2 if src[j] == '\\' else 1
            out.append('""')
            i = j + 1
        else:
            out.append(src[i])
            i += 1
    return ''.join(out)


def lean_sources():
    for root, dirs, files in os.walk(LEAN):
        dirs[:] = [d for d in dirs if d not in ('.lake',)]
        for f in files:
            if f.endswith('.lean'):
                yield os.path.join(root, f)


def lean_obligations(prop, theorems, log, tier='quick'):
    """Build the Lean project and audit the theorems of one property.

    Returns dict(ok, obligations, discharged, failures, axioms)."""
    res = {'ok': True, 'obligations': len(theorems), 'discharged': 0, 'failures': [], 'axioms': {},
           'build_s': 0.0}
    t0 = time.time()
    proc = subprocess.run(['lake', 'build'], cwd=LEAN, stdout=subprocess.PIPE, stderr=subprocess.STDOUT,
                          text=True)
    res['build_s'] = round(time.time() - t0, 2)
    if proc.returncode != 0:
        res['ok'] = False
        res['failures'].append({'what': 'lake build failed', 'detail': proc.stdout[-3000:]})
        log('lake build FAILED')
        return res
    for path in lean_sources():
        with open(path, encoding='utf-8') as fobj:
            src = strip_lean_comments(fobj.read())
        m = FORBIDDEN.search(src)
        if m:
            res['ok'] = False
            res['failures'].append({'what': 'forbidden token', 'detail': f'{path}: {m.group(0).strip()}'})
    audit = os.path.join(LEAN, 'Audit', f'{prop}.lean')
    if not os.path.exists(audit):
        res['ok'] = False
        res['failures'].append({'what': 'missing audit file', 'detail': audit})
        return res
    proc = subprocess.run(['lake', 'env', 'lean', audit], cwd=LEAN, stdout=subprocess.PIPE,
                          stderr=subprocess.STDOUT, text=True)
    out = proc.stdout.replace('\n  ', ' ').replace('\n ', ' ')
    found = {}
    for m in re.finditer(r"'([^']+)' depends on axioms: \[([^\]]*)\]", out):
        found[m.group(1)] = {a.strip() for a in m.group(2).split(',') if a.strip()}
    for m in re.finditer(r"'([^']+)' does not depend on any axioms", out):
        found[m.group(1)] = set()
    for thm in theorems:
        if thm not in found:
            res['ok'] = False
            res['failures'].append({'what': 'theorem not checked', 'detail': thm, 'output': out[-1500:]})
            continue
        extra = found[thm] - ALLOWED_AXIOMS
        res['axioms'][thm] = sorted(found[thm])
        if extra:
            res['ok'] = False
            res['failures'].append({'what': 'axiom outside trusted base', 'detail': f'{thm}: {sorted(extra)}'})
        else:
            res['discharged'] += 1
    if proc.returncode != 0 and res['ok']:
        res['ok'] = False
        res['failures'].append({'what': 'audit file failed', 'detail': out[-1500:]})
    if tier == 'thorough' and res['ok']:
        t0 = time.time()
        proc = subprocess.run(['lake', 'env', 'leanchecker', f'Props.{prop}'], cwd=LEAN, stdout=subprocess.PIPE,
                              stderr=subprocess.STDOUT, text=True)
        res['leanchecker'] = {'module': f'Props.{prop}', 'exit': proc.returncode,
                              'wall_s': round(time.time() - t0, 1)}
        if proc.returncode != 0:
            res['ok'] = False
            res['failures'].append({'what': 'leanchecker rejected the compiled theorems', 'detail': proc.stdout[-1500:]})
    return res


class Driver:
    """Line-protocol client of the compiled Lean model (``lean/.lake/build/bin/vjdriver``)."""

    def __init__(self):
        exe = os.path.join(LEAN, '.lake', 'build', 'bin', 'vjdriver')
        if not os.path.exists(exe):
            raise HarnessError('vjdriver not built')
        self.proc = subprocess.Popen([exe], stdin=subprocess.PIPE, stdout=subprocess.PIPE, text=True,
                                     bufsize=1)
        self.calls = 0

    def ask(self, model, arg):
        line = model + ' ' + json.dumps(arg, separators=(',', ':'))
        self.proc.stdin.write(line + '\n')
        self.proc.stdin.flush()
        rep = self.proc.stdout.readline()
        self.calls += 1
        if not rep:
            raise HarnessError(f'driver died on: {line[:300]}')
        rep = rep.strip()
        if rep.startswith('!'):
            return {'!driver-error': rep[1:]}
        return json.loads(rep)

    def close(self):
        try:
            self.proc.stdin.close()
            self.proc.wait(timeout=5)
        except Exception:  # pylint: disable=broad-except
            self.proc.kill()


# ------------------------------------------------------------------------------------------------
# findings, evidence, replays
# ------------------------------------------------------------------------------------------------

def load_findings(prop):
    path = os.path.join(VERIF, 'known_findings.json')
    if not os.path.exists(path):
        return []
    with open(path, encoding='utf-8') as fobj:
        data = json.load(fobj)
    return [e for e in data.get('findings', []) if e.get('property') == prop and e.get('state') == 'known']


def write_replay(prop, seed, n, payload):
    rdir = os.path.join(VERIF, 'replays', prop)
    os.makedirs(rdir, exist_ok=True)
    path = os.path.join(rdir, f'{seed}-{n}.json')
    with open(path, 'w', encoding='utf-8') as fobj:
        json.dump(payload, fobj, indent=1, sort_keys=True, default=repr)
    return os.path.relpath(path, VERIF)


def case_key(obj):
    return hashlib.sha1(json.dumps(obj, sort_keys=True, default=repr).encode()).hexdigest()


def load_corpus(prop):
    cdir = os.path.join(VERIF, 'corpus', prop)
    cases = []
    if os.path.isdir(cdir):
        for name in sorted(os.listdir(cdir)):
            if name.endswith('.json'):
                with open(os.path.join(cdir, name), encoding='utf-8') as fobj:
                    cases.append((name, json.load(fobj)))
    return cases


# ------------------------------------------------------------------------------------------------
# main loop
# ------------------------------------------------------------------------------------------------

class Run:
    """State of one check run; plugins receive it as ``ctx``."""

    def __init__(self, prop, tier, seed):
        self.prop, self.tier, self.seed = prop, tier, seed
        self.rng = random.Random(seed)
        self.rng_ambient = random.Random(seed * 1000003 + 17)
        self.hist = {}
        self.samples = []
        self.nontrivial = set()
        self.evaluations = 0
        self.mismatches = []
        self.oracle_failures = []
        self.known_hits = {}
        self.traces_validated = 0
        self.driver = None
        self.t0 = time.time()
        self.extra = {}

    def count(self, key, n=1):
        self.hist[key] = self.hist.get(key, 0) + n

    def log(self, *args):
        print(f'[{self.prop} {time.time() - self.t0:6.1f}s]', *args, file=sys.stderr, flush=True)


# ------------------------------------------------------------------------------------------------
# ambient configuration: the same case under another configuration of the process (a property that holds "for all
# inputs" holds whatever the log level or the interpreter flags are)
# ------------------------------------------------------------------------------------------------

AMBIENT_RATE = 0.1


class debug_logging:
    """valjean's loggers at DEBUG, records delivered to a handler that drops them (the runner disables logging otherwise)"""

    def __enter__(self):
        import logging
        self.logging = logging
        self.root = logging.getLogger()
        self.vj = logging.getLogger('valjean')
        self.saved = (logging.root.manager.disable, self.root.level, self.vj.level, list(self.root.handlers),
                      list(self.vj.handlers), self.vj.propagate)
        logging.disable(logging.NOTSET)
        for logger in (self.root, self.vj):
            for handler in list(logger.handlers):
                logger.removeHandler(handler)
        self.vj.addHandler(logging.NullHandler())
        self.vj.propagate = False
        self.vj.setLevel(logging.DEBUG)
        return self

    def __exit__(self, *exc):
        disable, rlevel, vlevel, rhandlers, vhandlers, propagate = self.saved
        for handler in list(self.vj.handlers):
            self.vj.removeHandler(handler)
        for handler in rhandlers:
            self.root.addHandler(handler)
        for handler in vhandlers:
            self.vj.addHandler(handler)
        self.root.setLevel(rlevel)
        self.vj.setLevel(vlevel)
        self.vj.propagate = propagate
        self.logging.disable(disable)
        return False


def install_ambient(plugin):
    """cases carrying '_ambient': 'debuglog' run the implementation with debug logging switched on"""
    orig = plugin.run_impl

    def run_impl(case, run):
        if isinstance(case, dict) and case.get('_ambient') == 'debuglog':
            run.count('ambient:debuglog')
            with debug_logging():
                return orig(case, run)
        return orig(case, run)
    plugin.run_impl = run_impl


def with_ambient(run, case):
    if not run.ambient_ok:
        return case
    if isinstance(case, dict) and '_ambient' not in case and run.rng_ambient.random() < AMBIENT_RATE:
        case['_ambient'] = 'debuglog'
    return case


def optimized_pass(run, args, budget, time_limit):
    """the generated stream once more, in a python -O child (assert statements and `if __debug__` blocks removed from
    valjean): a tenth of the budget.  Returns (violation line or None, summary dict)."""
    n = max(20, budget // 10)
    cmd = [sys.executable, '-O', os.path.abspath(__file__), run.prop, '--tier', run.tier, '--budget', str(n), '--subpass']
    env = dict(os.environ, VERIF_SEED=str(run.seed + 7919))
    try:
        proc = subprocess.run(cmd, stdout=subprocess.PIPE, stderr=subprocess.PIPE, text=True, env=env,
                              timeout=(time_limit or 600) + 300)
    except subprocess.TimeoutExpired:
        raise HarnessError('the python -O pass did not finish')
    summary = None
    for line in proc.stdout.splitlines():
        if line.startswith('SUBPASS '):
            summary = json.loads(line[len('SUBPASS '):])
    if proc.returncode not in (0, 1) or summary is None:
        raise HarnessError(f'the python -O pass failed (exit {proc.returncode}): {proc.stderr[-1500:]}')
    line = next((ln for ln in proc.stdout.splitlines() if ln.startswith('VIOLATION ')), None)
    return line, summary


def run_case(run, plugin, case, origin):
    """Run one case on implementation and model.  Returns (mismatch or None, oracle failures)."""
    run.evaluations += 1
    run.current = (case, origin, time.time())
    impl = plugin.run_impl(case, run)
    model = plugin.run_model(case, run.driver, run)
    mismatch = None
    if model is not None:
        run.traces_validated += 1
        diff = plugin.compare(case, impl, model) if hasattr(plugin, 'compare') else (
            None if impl == model else first_diff(impl, model))
        if diff is not None:
            mismatch = {'case': case, 'impl': impl, 'model': model, 'diff': diff, 'origin': origin}
    fails = plugin.oracle(case, impl, run) or []
    key = plugin.nontrivial(case, impl) if hasattr(plugin, 'nontrivial') else case_key(case)
    if key is not None:
        run.nontrivial.add(key if isinstance(key, str) else case_key(key))
    if len(run.samples) < 3:
        run.samples.append({'case': case, 'impl': impl})
    return mismatch, [{'case': case, 'impl': impl, 'clause': c, 'detail': d, 'origin': origin}
                      for (c, d) in fails]


def start_watchdog(run, limit):
    """a case (implementation, model or oracle) that does not finish within `limit` seconds is a harness error (exit 2):
    the case is kept for inspection and the process ends — a check never hangs"""
    import threading

    def watch():
        while True:
            time.sleep(5)
            cur = getattr(run, 'current', None)
            if cur and time.time() - cur[2] > limit and getattr(run, 'current', None) is cur:
                try:
                    path = write_replay(run.prop, run.seed, 'stuck', {
                        'property': run.prop, 'seed': run.seed, 'tier': run.tier, 'kind': 'stuck-case', 'case': cur[0],
                        'origin': cur[1], 'detail': f'no result within {limit} s'})
                    print(f'HARNESS-ERROR {run.prop}: case {cur[1]} did not finish within {limit} s; kept as {path}',
                          file=sys.stderr, flush=True)
                finally:
                    os._exit(2)
    threading.Thread(target=watch, daemon=True).start()


def first_diff(a, b, path='$'):
    if type(a) is not type(b):
        return f'{path}: impl={a!r} model={b!r}'[:600]
    if isinstance(a, dict):
        for k in sorted(set(a) | set(b)):
            if k not in a or k not in b:
                return f'{path}.{k}: impl={a.get(k)!r} model={b.get(k)!r}'[:600]
            d = first_diff(a[k], b[k], f'{path}.{k}')
            if d:
                return d
        return None
    if isinstance(a, list):
        if len(a) != len(b):
            return f'{path}: length impl={len(a)} model={len(b)}; impl={a!r} model={b!r}'[:600]
        for i, (x, y) in enumerate(zip(a, b)):
            d = first_diff(x, y, f'{path}[{i}]')
            if d:
                return d
        return None
    return None if a == b else f'{path}: impl={a!r} model={b!r}'[:600]


def shrink(run, plugin, case, still_fails, budget=200):
    """Greedy shrinking with the plugin's ``shrink`` candidates."""
    if not hasattr(plugin, 'shrink'):
        return case
    improved = True
    while improved and budget > 0:
        improved = False
        for cand in plugin.shrink(case):
            budget -= 1
            if budget <= 0:
                break
            try:
                if still_fails(cand):
                    case, improved = cand, True
                    break
            except HarnessError:
                raise
            except Exception:  # pylint: disable=broad-except
                continue
    return case


def main(argv=None):
    parser = argparse.ArgumentParser()
    parser.add_argument('prop')
    parser.add_argument('--tier', default=os.environ.get('VERIF_TIER', 'quick'), choices=['quick', 'thorough'])
    parser.add_argument('--replay')
    parser.add_argument('--budget', type=int, help='override the number of generated cases')
    parser.add_argument('--subpass', action='store_true',
                        help='internal: second pass of a check under another interpreter configuration (python -O): '
                             'generated stream only, no Lean stage, no evidence file')
    args = parser.parse_args(argv)
    prop = args.prop.upper()
    seed = int(os.environ.get('VERIF_SEED', '0') or 0)
    import logging
    import warnings
    warnings.simplefilter('ignore')
    logging.disable(logging.CRITICAL)
    sys.path.insert(0, REPO)
    sys.path.insert(0, os.path.join(VERIF, 'harness'))
    try:
        plugin = importlib.import_module(f'props.{prop.lower()}')
    except ImportError as exc:
        print(f'cannot load plugin for {prop}: {exc}', file=sys.stderr)
        traceback.print_exc()
        return 2
    install_ambient(plugin)
    run = Run(prop, args.tier, seed)
    run.ambient_ok = getattr(plugin, 'AMBIENT_DEBUGLOG', True)
    start_watchdog(run, getattr(plugin, 'CASE_LIMIT', 600))
    try:
        if args.replay:
            return replay(run, plugin, args.replay)
        return check(run, plugin, args)
    except HarnessError as exc:
        print(f'HARNESS-ERROR {prop}: {exc}', file=sys.stderr)
        traceback.print_exc()
        return 2
    except Exception as exc:  # pylint: disable=broad-except
        print(f'HARNESS-ERROR {prop}: internal error {type(exc).__name__}: {exc}', file=sys.stderr)
        traceback.print_exc()
        return 2
    finally:
        if run.driver:
            run.driver.close()


def replay(run, plugin, path):
    with open(path if os.path.isabs(path) else os.path.join(VERIF, path), encoding='utf-8') as fobj:
        data = json.load(fobj)
    if data.get('python_optimize') and not sys.flags.optimize:
        os.execv(sys.executable, [sys.executable, '-O'] + sys.argv)
    subprocess.run(['lake', 'build'], cwd=LEAN, check=False, stdout=subprocess.DEVNULL)
    run.driver = Driver()
    case = data['case']
    if hasattr(plugin, 'setup'):
        plugin.setup(run)
    mismatch, fails = run_case(run, plugin, case, 'replay')
    print(json.dumps({'case': case, 'mismatch': mismatch and mismatch['diff'],
                      'oracle_failures': [(f['clause'], f['detail']) for f in fails]}, indent=1, default=repr))
    if fails:
        print(f'VIOLATION property={run.prop} replay={path}')
        return 1
    return 0


def check(run, plugin, args):
    prop, tier = run.prop, run.tier
    if args.subpass:
        lean = {'ok': True, 'obligations': 0, 'discharged': 0, 'failures': [], 'axioms': {}, 'build_s': 0.0}
    else:
        lean = lean_obligations(prop, plugin.THEOREMS, run.log, tier)
        run.log(f"lean: {lean['discharged']}/{lean['obligations']} obligations, ok={lean['ok']} ({lean['build_s']}s build)")
    findings = load_findings(prop)
    driver_ok = True
    try:
        run.driver = Driver()
    except HarnessError:
        driver_ok = False
        if lean['ok']:
            raise
    if hasattr(plugin, 'setup'):
        plugin.setup(run)
    budget = args.budget or plugin.BUDGET[tier]
    # the time limit bounds the generated stream only: it starts after the Lean stage (whose first run after a restore
    # loads Mathlib from a cold cache and can take a minute) and after the plugin's setup
    deadline = time.time() + plugin.TIME_LIMIT[tier] if hasattr(plugin, 'TIME_LIMIT') else None

    def one(case, origin):
        if not driver_ok:
            run.evaluations += 1
            impl = plugin.run_impl(case, run)
            fails = plugin.oracle(case, impl, run) or []
            return None, [{'case': case, 'impl': impl, 'clause': c, 'detail': d, 'origin': origin}
                          for (c, d) in fails]
        return run_case(run, plugin, case, origin)

    def absorb(mismatch, fails):
        if mismatch and len(run.mismatches) < 20:
            run.mismatches.append(mismatch)
        for f in fails:
            sig = plugin.signature(f['case'], f['clause'], f['detail']) if hasattr(plugin, 'signature') else f['clause']
            hit = next((e for e in findings if e['signature'] == sig), None)
            if hit:
                run.known_hits.setdefault(sig, {'entry': hit, 'n': 0, 'example': f})['n'] += 1
            elif len(run.oracle_failures) < 20:
                f['signature'] = sig
                run.oracle_failures.append(f)

    for name, case in load_corpus(prop):
        absorb(*one(case, f'corpus/{name}'))
    cases = plugin.exhaustive(tier, run) if hasattr(plugin, 'exhaustive') and not args.subpass else []
    for case in cases:
        absorb(*one(case, 'exhaustive'))
        if run.oracle_failures:
            break
    n = 0
    while n < budget and not run.oracle_failures:
        if deadline and time.time() > deadline:
            run.log(f'time limit reached after {n} generated cases')
            break
        case = with_ambient(run, plugin.gen(run.rng, tier, run))
        absorb(*one(case, f'gen#{n}'))
        n += 1
    run.count('generated', n)

    broken = (not lean['ok']) or bool(run.mismatches)
    if broken and not run.oracle_failures:
        # failing-input search: the disagreeing cases' neighbourhood, then 10x the budget of fresh cases
        run.log('obligation or correspondence broken: searching for a failing input')
        extra = 0
        search_deadline = time.time() + (plugin.TIME_LIMIT[tier] if hasattr(plugin, 'TIME_LIMIT') else 120)
        seeds = [m['case'] for m in run.mismatches]
        for base in seeds:
            for cand in list(plugin.shrink(base))[:200] if hasattr(plugin, 'shrink') else []:
                _, fails = run_oracle_only(run, plugin, cand, 'search-shrink')
                absorb(None, fails)
            if run.oracle_failures:
                break
        if hasattr(plugin, 'search') and not run.oracle_failures:
            for cand in plugin.search(run, seeds):
                _, fails = run_oracle_only(run, plugin, cand, 'search')
                absorb(None, fails)
                if run.oracle_failures or time.time() > search_deadline:
                    break
        while extra < 10 * budget and not run.oracle_failures and time.time() < search_deadline:
            case = plugin.gen(run.rng, tier, run)
            _, fails = run_oracle_only(run, plugin, case, f'search#{extra}')
            absorb(None, fails)
            extra += 1
        run.count('search_cases', extra)

    violations = 0
    lines = []
    opt_line = None
    if not args.subpass and not run.oracle_failures and not broken and not sys.flags.optimize \
            and not os.environ.get('VERIF_NO_OPT_PASS'):
        opt_line, opt_summary = optimized_pass(run, args, budget, plugin.TIME_LIMIT[tier] if hasattr(plugin, 'TIME_LIMIT') else None)
        run.extra['python_O_pass'] = opt_summary
        for key, val in opt_summary.get('known_findings_hit', {}).items():
            hit = next((e for e in findings if e['signature'] == key), None)
            if hit:
                run.known_hits.setdefault(key, {'entry': hit, 'n': 0, 'example': None})['n'] += val
    for sig, hit in run.known_hits.items():
        lines.append(f"KNOWN-FINDING: property={prop} {hit['entry'].get('description', sig)} "
                     f"[signature={sig}, {hit['n']} case(s) this run]")
    if run.oracle_failures:
        f = run.oracle_failures[0]

        def still(c):
            impl = plugin.run_impl(c, run)
            return any(cl == f['clause'] for cl, _ in (plugin.oracle(c, impl, run) or []))
        small = shrink(run, plugin, f['case'], still)
        impl = plugin.run_impl(small, run)
        path = write_replay(prop, run.seed, 'O' if args.subpass else 0, {
            'python_optimize': bool(sys.flags.optimize),
            'property': prop, 'seed': run.seed, 'tier': tier, 'kind': 'counterexample', 'case': small,
            'impl_observation': impl, 'oracle_clause': f['clause'],
            'detail': [d for c, d in (plugin.oracle(small, impl, run) or []) if c == f['clause']][:3] or f['detail'],
            'origin': f['origin'], 'lean_failures': lean['failures'],
            'model_mismatch': run.mismatches[0]['diff'] if run.mismatches else None,
            'how_to_replay': f'./check {prop} --replay <this file>'})
        lines.append(f'VIOLATION property={prop} replay={path}')
        violations = 1
    elif broken:
        m = run.mismatches[0] if run.mismatches else None
        path = write_replay(prop, run.seed, 'O' if args.subpass else 0, {
            'python_optimize': bool(sys.flags.optimize),
            'property': prop, 'seed': run.seed, 'tier': tier, 'kind': 'no-failing-input-found',
            'broken': ('correspondence: ' + plugin.CORRESPONDS if m else 'lean obligations'),
            'theorems': plugin.THEOREMS, 'lean_failures': lean['failures'],
            'case': m['case'] if m else None, 'impl_observation': m['impl'] if m else None,
            'model_observation': m['model'] if m else None, 'diff': m['diff'] if m else None,
            'searched': run.hist.get('search_cases', 0),
            'how_to_replay': f'./check {prop} --replay <this file>'})
        lines.append(f'VIOLATION property={prop} replay={path} no-failing-input-found')
        violations = 1

    if opt_line:
        lines.append(opt_line)
        violations = 1
    wall = round(time.time() - run.t0, 2)
    if args.subpass:
        for line in lines:
            if line.startswith('VIOLATION'):
                print(line)
        print('SUBPASS ' + json.dumps({
            'flags': '-O', 'evaluations': run.evaluations, 'distinct_nontrivial': len(run.nontrivial),
            'traces_validated_against_impl': run.traces_validated, 'disagreements': len(run.mismatches),
            'known_findings_hit': {s: h['n'] for s, h in run.known_hits.items()}, 'violations': violations,
            'wall_s': wall}))
        return 1 if violations else 0
    cov = {
        'obligations': lean['obligations'], 'discharged': lean['discharged'],
        'checker_cmd': f'cd lean && lake build && lake env lean Audit/{prop}.lean   # #print axioms of every theorem',
        'trusted_base': ['Lean 4.33.0 kernel', 'axioms: ' + ', '.join(sorted(ALLOWED_AXIOMS))] + list(plugin.TRUSTED),
        'theorems': lean['axioms'], 'leanchecker': lean.get('leanchecker'),
        'evaluations': run.evaluations, 'distinct_nontrivial': len(run.nontrivial),
        'rule': plugin.RULE, 'samples': run.samples[:3],
        'traces_validated_against_impl': run.traces_validated,
        'disagreements_checked': len(run.mismatches),
        'known_findings_hit': {s: h['n'] for s, h in run.known_hits.items()},
        'input_distribution': dict(sorted(run.hist.items())),
        'correspondence': plugin.CORRESPONDS,
        'exhaustive': bool(run.extra.get('exhaustive', False)),
    }
    cov.update({k: v for k, v in run.extra.items() if k != 'exhaustive'})
    evidence = {'property_id': prop, 'tier': tier, 'seed': run.seed, 'level': 'proof', 'coverage': cov,
                'assumptions': list(plugin.ASSUMPTIONS), 'wall_s': wall, 'violations': violations}
    evdir = os.environ.get('VERIF_EVIDENCE_DIR') or os.path.join(VERIF, 'evidence')
    os.makedirs(evdir, exist_ok=True)
    with open(os.path.join(evdir, f'{prop}.json'), 'w', encoding='utf-8') as fobj:
        json.dump(evidence, fobj, indent=1, sort_keys=True, default=repr)
    for line in lines:
        print(line)
    run.log(f'{run.evaluations} cases, {len(run.nontrivial)} distinct non-trivial, '
            f'{len(run.mismatches)} mismatches, violations={violations}, {wall}s')
    return 1 if violations else 0


def run_oracle_only(run, plugin, case, origin):
    run.evaluations += 1
    impl = plugin.run_impl(case, run)
    fails = plugin.oracle(case, impl, run) or []
    return None, [{'case': case, 'impl': impl, 'clause': c, 'detail': d, 'origin': origin} for (c, d) in fails]


if __name__ == '__main__':
    sys.exit(main())
