"""Controlled thread scheduler for valjean's QueueScheduling backend (DESIGN.md section 4.2).

The real `QueueScheduling.execute_tasks`, real `WorkerThread` objects on real Python threads and a real `Env` run
under a baton: exactly one thread runs at a time; at every synchronisation primitive (queue, condition variable,
environment lock, thread start/join, clock read) the running thread announces the operation it is about to perform
and parks; the controller computes the set of threads whose pending operation is enabled, picks one according to
the schedule source, and lets it perform that operation and run up to its next primitive.

Nothing in /repo is modified: `valjean.cosette.backends.queue.Queue/.threading/.time` and
`valjean.cosette.env.threading` are replaced inside the harness process, and `WorkerThread.start/run/join` wrapped.
"""
import threading as real_threading
import random


class Abort(BaseException):
    """Raised inside controlled threads to unwind them after a deadlock or a step limit."""


class Controller:
    """Baton-passing controller.  Thread ids: 'M' (the caller) and 'W0', 'W1', ... (workers, in start order)."""

    def __init__(self, chooser, max_steps=20000):
        self.chooser = chooser            # function(enabled_tids, step_index, controller) -> tid
        self.max_steps = max_steps
        self.sems = {}                    # tid -> Semaphore the thread parks on
        self.pending = {}                 # tid -> (kind, enabled_fn, arg)
        self.finished = set()
        self.order = []                   # thread ids in creation order
        self.trace = []                   # (tid, kind, arg, result)
        self.enabled_log = []             # enabled set before each step
        self.deadlock = None
        self.aborting = False
        self.clock = 0
        self.current = 'M'
        self.local = real_threading.local()
        self.on_step = None               # callback(controller, tid, kind, arg) after each executed op
        self.worker_count = 0
        self.lock_state = {}
        self.sems['M'] = real_threading.Semaphore(0)
        self.order.append('M')
        self.local.tid = 'M'

    # ---- identity -------------------------------------------------------------------------------
    def me(self):
        return getattr(self.local, 'tid', None)

    # ---- the yield point ------------------------------------------------------------------------
    def yield_point(self, kind, enabled_fn, arg=None):
        """Announce the pending operation, hand the baton over, come back when chosen (and enabled)."""
        tid = self.me()
        if tid is None or self.aborting:
            if self.aborting:
                raise Abort()
            return
        self.pending[tid] = (kind, enabled_fn, arg)
        self._dispatch(tid)
        # we hold the baton again and our operation is enabled
        if self.aborting:
            raise Abort()
        del self.pending[tid]
        self.current = tid

    def _enabled(self):
        return [t for t in self.order if t in self.pending and t not in self.finished and self.pending[t][1]()]

    def _dispatch(self, tid):
        """Called by the thread that is giving up the baton (tid may be None when it has finished)."""
        enabled = self._enabled()
        if self.on_step:
            self.on_step(self)            # state after the previous step has run to its next primitive
        if not enabled or len(self.trace) >= self.max_steps:
            if any(t not in self.finished for t in self.order):
                self.deadlock = {'blocked': {t: self.pending[t][0] for t in self.pending if t not in self.finished},
                                 'steps': len(self.trace), 'limit': len(self.trace) >= self.max_steps}
            self.aborting = True
            for t, sem in self.sems.items():
                if t != tid:
                    sem.release()
            if tid is not None:
                raise Abort()
            return
        choice = self.chooser(enabled, len(self.trace), self)
        self.enabled_log.append(list(enabled))
        kind, _, arg = self.pending[choice]
        self.trace.append([choice, kind, arg])
        if choice == tid:
            return
        self.sems[choice].release()
        if tid is not None:
            self.sems[tid].acquire()

    def record_result(self, result):
        """attach the result of the operation just executed to the last trace entry"""
        if self.trace:
            self.trace[-1].append(result)

    def step_done(self):
        """(the state digest is taken in _dispatch, when the running thread reaches its next primitive)"""

    # ---- threads --------------------------------------------------------------------------------
    def register_worker(self):
        tid = f'W{self.worker_count}'
        self.worker_count += 1
        self.sems[tid] = real_threading.Semaphore(0)
        self.order.append(tid)
        # a started thread's first pending operation is 'begin' (always enabled)
        self.pending[tid] = ('begin', lambda: True, None)
        return tid

    def thread_body(self, tid, body):
        self.local.tid = tid
        self.sems[tid].acquire()           # wait to be scheduled for 'begin'
        try:
            if self.aborting:
                raise Abort()
            del self.pending[tid]
            self.current = tid
            self.step_done()
            body()
        except Abort:
            pass
        finally:
            self.finished.add(tid)
            self.pending.pop(tid, None)
            if not self.aborting:
                self._dispatch(None)


class CQueue:
    """queue.Queue as used by QueueScheduling"""

    def __init__(self, ctl, maxsize=0):
        self.ctl = ctl
        self.maxsize = maxsize        # as queue.Queue: put() blocks while a bounded queue is full
        self.items = []
        self.unfinished_tasks = 0

    def put(self, item):
        self.ctl.yield_point('qput', lambda: self.maxsize <= 0 or len(self.items) < self.maxsize, item)
        self.items.append(item)
        self.unfinished_tasks += 1
        self.ctl.step_done()

    def get(self):
        self.ctl.yield_point('qget', lambda: bool(self.items))
        item = self.items.pop(0)
        self.ctl.record_result(item)
        self.ctl.step_done()
        return item

    def task_done(self):
        self.ctl.yield_point('qdone', lambda: True)
        if self.unfinished_tasks <= 0:
            raise ValueError('task_done() called too many times')
        self.unfinished_tasks -= 1
        self.ctl.step_done()

    def join(self):
        self.ctl.yield_point('qjoin', lambda: self.unfinished_tasks == 0)
        self.ctl.step_done()


class CRLock:
    """threading.RLock: only the outermost acquisition is a scheduling point"""

    def __init__(self, ctl, name='elock'):
        self.ctl = ctl
        self.name = name
        self.owner = None
        self.count = 0

    def acquire(self, blocking=True, timeout=-1):
        me = self.ctl.me()
        if self.owner == me and me is not None:
            self.count += 1
            return True
        self.ctl.yield_point(self.name, lambda: self.owner is None)
        self.owner = me
        self.count = 1
        self.ctl.step_done()
        return True

    def release(self):
        self.count -= 1
        if self.count == 0:
            self.owner = None

    __enter__ = acquire

    def __exit__(self, *exc):
        self.release()


class CCondition:
    """threading.Condition (its own re-entrant lock; no spurious wake-ups)"""

    def __init__(self, ctl, lock=None):
        self.ctl = ctl
        self.lock = CRLock(ctl, 'cacq')
        self.waiters = {}                 # tid -> notified?

    def __enter__(self):
        return self.lock.acquire()

    def __exit__(self, *exc):
        self.lock.release()

    def wait(self, timeout=None):
        me = self.ctl.me()
        saved = self.lock.count
        self.lock.count = 0
        self.lock.owner = None
        self.waiters[me] = False
        self.ctl.yield_point('cwake', lambda: self.waiters.get(me, False) and self.lock.owner is None)
        del self.waiters[me]
        self.lock.owner = me
        self.lock.count = saved
        self.ctl.step_done()
        return True

    def notify_all(self):
        if self.lock.owner != self.ctl.me():
            raise RuntimeError('cannot notify on un-acquired lock')
        self.ctl.yield_point('cnotify', lambda: True)
        for tid in self.waiters:
            self.waiters[tid] = True
        self.ctl.step_done()

    notify = notify_all


class FakeThreadingForQueue:
    """what `valjean.cosette.backends.queue` sees as `threading`"""

    def __init__(self, ctl):
        self.ctl = ctl
        self.Thread = real_threading.Thread
        self.conditions = []

    def Condition(self, lock=None):
        cond = CCondition(self.ctl, lock)
        self.conditions.append(cond)
        return cond

    def RLock(self):
        return CRLock(self.ctl)

    def current_thread(self):
        return real_threading.current_thread()


class FakeThreadingForEnv:
    """what `valjean.cosette.env` sees as `threading`"""

    def __init__(self, ctl):
        self.ctl = ctl

    def RLock(self):
        return CRLock(self.ctl)


class FakeTime:
    def __init__(self, ctl):
        self.ctl = ctl

    def time(self):
        self.ctl.yield_point('time', lambda: True)
        self.ctl.clock += 1
        self.ctl.record_result(self.ctl.clock)
        self.ctl.step_done()
        return float(self.ctl.clock)


class Session:
    """Installs the instrumented primitives around one or several `schedule()` calls."""

    def __init__(self, chooser, max_steps=20000):
        import valjean.cosette.backends.queue as qmod
        import valjean.cosette.env as emod
        self.qmod, self.emod = qmod, emod
        self.ctl = Controller(chooser, max_steps)
        self.saved = None
        self.real_threads = []

    def __enter__(self):
        qmod, emod, ctl = self.qmod, self.emod, self.ctl
        wthread = qmod.QueueScheduling.WorkerThread
        self.saved = (qmod.Queue, qmod.threading, qmod.time, emod.threading, wthread.start, wthread.join, wthread.run)
        qmod.Queue = lambda maxsize=0: CQueue(ctl, maxsize)
        self.fake_threading = FakeThreadingForQueue(ctl)
        qmod.threading = self.fake_threading
        qmod.time = FakeTime(ctl)
        emod.threading = FakeThreadingForEnv(ctl)
        orig_run = wthread.run
        session = self

        def start(thread):
            ctl.yield_point('tstart', lambda: True)
            tid = ctl.register_worker()
            thread.vtid = tid
            real = real_threading.Thread(target=ctl.thread_body, args=(tid, lambda: orig_run(thread)), daemon=True)
            session.real_threads.append(real)
            thread.vreal = real
            real.start()
            ctl.record_result(tid)
            ctl.step_done()

        def join(thread, timeout=None):
            ctl.yield_point('tjoin', lambda: thread.vtid in ctl.finished, thread.vtid)
            ctl.step_done()

        wthread.start = start
        wthread.join = join
        return self

    def __exit__(self, *exc):
        qmod, emod = self.qmod, self.emod
        wthread = qmod.QueueScheduling.WorkerThread
        (qmod.Queue, qmod.threading, qmod.time, emod.threading, wthread.start, wthread.join, wthread.run) = self.saved
        # release whatever is still parked (after a deadlock) and wait for the real threads
        self.ctl.aborting = True
        for sem in self.ctl.sems.values():
            sem.release()
        for real in self.real_threads:
            real.join(timeout=2)
        return False

    def live_workers(self):
        return [t for t in self.ctl.order if t != 'M' and t not in self.ctl.finished]


# ---- schedule sources -----------------------------------------------------------------------------

def random_chooser(seed):
    rng = random.Random(seed)

    def choose(enabled, _step, _ctl):
        return rng.choice(enabled)
    return choose


def pct_chooser(seed, nthreads_hint=8, depth=3, length_hint=200):
    """PCT: random static priorities, `depth - 1` random priority change points."""
    rng = random.Random(seed)
    prio = {}
    changes = sorted(rng.randrange(1, length_hint) for _ in range(depth - 1))

    def choose(enabled, step, _ctl):
        for tid in enabled:
            if tid not in prio:
                prio[tid] = rng.random() + 1.0
        if changes and step >= changes[0]:
            changes.pop(0)
            best = max(enabled, key=lambda t: prio[t])
            prio[best] = rng.random() * 0.5     # demote the running thread
        return max(enabled, key=lambda t: prio[t])
    return choose


def replay_chooser(schedule, fallback_seed=0):
    rng = random.Random(fallback_seed)
    it = iter(schedule)

    def choose(enabled, _step, _ctl):
        nxt = next(it, None)
        if nxt in enabled:
            return nxt
        return rng.choice(enabled)
    return choose
