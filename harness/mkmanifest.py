#!/usr/bin/env python3
"""Regenerate /verif/MANIFEST.json from the table below (python3 harness/mkmanifest.py)."""
import json
import os

VERIF = os.path.dirname(os.path.dirname(os.path.abspath(__file__)))
ALL = [f'C{i:02d}' for i in range(1, 21)]

# id -> (technique, level text, level note, design section)
CHECKS = {
    'C01': ('Lean 4 proof: QueueScheduling as a transition system (one constructor per synchronisation primitive of the '
            'master and of every worker); safety invariant InvA preserved by every step, hence in every reachable state of '
            'every interleaving + differential correspondence: the real execute_tasks / WorkerThread / Env run under a '
            'controlled (baton-passing) scheduler and the compiled model replays the recorded schedule step by step',
            'For every acyclic hard/soft graph (tasks in topological order), every worker count, every task outcome '
            '(success, exception, FAILED, malformed return) and every interleaving: dep_safe_inv — what a task finds in '
            'the environment for each dependency at the instant its do() is called is a final entry, and a DONE one '
            'carries its results and clocks (InvA_step, InvA_init, InvA_reach; seen_is_snapshot). Tied to queue.py on '
            'every run: random, PCT and replayed schedules of the real threads, state digest and enabled set compared '
            'with the model after every step; the probe tasks record what they observe.',
            'Trusted: Lean kernel + standard axioms; the controlled scheduler (harness/vcheck/ctlsched.py) decides which '
            'primitive operations are scheduling points (queue put/get/task_done/join, Condition, Env lock, Thread '
            'start/join, time.time) and assumes sequential consistency of everything between two of them (the GIL); '
            'topological_sort is modelled as "tasks are numbered in a topological order" (its output is checked by the '
            'C16 machinery).',
            '10 (scheduler)'),
    'C02': ('Lean 4 proof: final status of every task = a recursive specification over the graph (spec), by an '
            'invariant over all interleavings (InvB) on top of the safety and counting invariants; corollaries: '
            'schedule/worker-count independence, soft dependencies never block + the same differential correspondence '
            'under the controlled scheduler',
            'final_status_eq_spec: in every terminal state of every execution from an empty environment every task is in '
            'exactly one final state and it is spec c t (SKIPPED iff a hard dependency ended FAILED or SKIPPED, else '
            'DONE/FAILED according to the task result; exceptions and malformed returns give FAILED); '
            'schedule_independent (two executions, different worker counts and interleavings, same status map); '
            'soft_never_blocks; exec_at_most_once (no task body runs twice, in any reachable state) and exec_count_eq_spec '
            '(at return exactly the non-SKIPPED tasks have run once), by the counting invariant InvE.',
            'Trusted: as C01; the result classification of WorkerThread.check_result is modelled by Outcome '
            '(done / raises / failed / malformed), compared with the code on generated return values.',
            '10 (scheduler)'),
    'C03': ('Lean 4 proof: counting/liveness invariant InvC (tasks in flight + unfinished counter + sentinel and wake-up '
            'bookkeeping) preserved by every step: no reachable non-terminal state is stuck (no_deadlock), terminal '
            'states are clean (clean_exit), the call raises iff the graph is cyclic and then no worker was started '
            '(raises_iff_cyclic) + differential correspondence under the controlled scheduler incl. deadlock detection',
            'no_deadlock: in every reachable state either the call has returned/raised with all workers exited, or some '
            'thread has an enabled step (lost wake-ups, missed notify, join on a non-empty queue are all excluded for '
            'every interleaving); clean_exit: queue empty, unfinished = 0, all workers exited, so a second call on the '
            'same backend starts clean; always_terminates / bounded_executions: a natural-number measure mu (credits for '
            'the remaining passes of the master, local weights of every thread and queued item) strictly decreases at every '
            'step of every thread (mu_decreases), so there is no infinite execution and an execution of k steps has '
            'k <= mu(init).',
            'Trusted: as C01; Condition modelled without spurious wake-ups (the code re-checks nothing after wait: a '
            'spurious wake-up only causes an extra pass, covered by the mWake-independent invariants but not exhibited). '
            'Oracle-only cases (no model): a 1100-task job, updates that overwrite another task\'s entry, schedulers '
            'created without a backend whose calls overlap (child process, real threads, 30 s).',
            '10 (scheduler)'),
    'C04': ('Lean 4 proof: clock invariant InvD (decided+final entries are frozen; a task starts strictly after the end of '
            'each DONE dependency; recorded clocks are in the past) preserved by every step from an arbitrary carried-over '
            'environment + differential correspondence on histories of 2-5 runs (failures, recoveries, lost entries, new '
            'tasks, stale clocks) under the controlled scheduler',
            'rerun_consistent (first sentence of C04, full strength): for every carried-over environment satisfying '
            'EnvOK/ClockOK, at return no task is DONE unless every DONE dependency ended before it started and no hard '
            'dependency is FAILED/SKIPPED; rerun_envcons + EnvCons_sub: the condition is inherited by what the next run '
            'starts from (history induction); decided_final_frozen. Second sentence: fresh_not_rerun — for every '
            'dependency-closed set of tasks recorded DONE and up to date in the carried-over environment (FreshSet), in '
            'every state of every execution no task of the set has been executed and its entry is exactly the one carried '
            'over (invariant InvF, decide_fresh); freshSet_of_envcons: in a history of runs the up-to-date hypothesis '
            'follows from rerun_envcons. The property words the hypothesis as "dependencies are not re-executed"; the '
            'theorem uses the static condition that implies it (stale dependencies would be re-executed).',
            'Trusted: as C01; time.time() is modelled as a strictly increasing integer clock (each read is a scheduling '
            'point); persistence between runs (write_env/read_env) is C14\'s model, here the carried-over Env is passed '
            'in memory through merge_done_tasks; 6% of the cases run the whole `valjean run` flow (job file, closure of the '
            'returned tasks, read_env, scheduler, write_env) two or three times in a child process with real threads: those '
            'are decided by the oracle only.',
            '10 (scheduler)'),
    'C05': ('Lean 4 proof over exact IEEE-like reals (XReal): Student t with its three conventions transcribed generically; '
            'verdict <=> all bins, oracle <=> ratio below the critical value, symmetry, invariance under a common positive '
            'rescaling (all special values), monotonicity in the difference and in the errors, one-sided NaN rejected, '
            'p-value decision = oracle for any strictly decreasing survival function + bit-exact differential correspondence '
            'with TestStudent (t, oracles, verdict, test_pvalue) incl. swapped / rescaled / perturbed evaluations',
            'verdict_iff_all_bins, verdict_false_of_bad_bin, oracle_iff_ratio, zero_zero_passes, tStat_symm, '
            'oracle_symmetric, scale_invariant (every XReal input, c > 0), monotone_diff, monotone_err, '
            'one_sided_nan_value_false, one_sided_nan_error_false, pvalue_agrees (hypotheses on the law: sf strictly '
            'decreasing on [0, inf), 2 sf(thr) = alpha; checked numerically against scipy on every case). Tied to '
            'student.py on every run: t compared bit for bit, oracles / verdict / test_pvalue compared, and the clauses '
            'recomputed on the implementation (swapped datasets, power-of-two rescaling, grown difference, shrunk error).',
            'Trusted: Lean kernel + standard axioms; XReal = exact arithmetic (rounding covered by the bit-exact '
            'comparison; 4 ulp for 0-d datasets); scipy quantile / survival functions are parameters of the model; '
            'monotone_* are stated for finite inputs with errors not both zero (the documented 0/0 convention is not '
            'monotone by design).',
            '10 (C05)'),
    'C07': ('Lean 4 proof: chi-square statistic as a sum over the used bins; ndf = number of used bins, with ignore_empty '
            'left out <=> both errors zero, left-out bins count for nothing, term = squared difference over the sum of the '
            'squared errors, order independence (permutation invariance, exact arithmetic incl. NaN/inf), verdict <=> all '
            'p > alpha, undefined statistic never passes + differential correspondence with TestChi2 (ndf, oracles, '
            'verdict exact; chi2 within 1e-12) incl. permuted evaluation',
            'ndf_eq_count, left_out_iff_both_zero, left_out_not_counted, used_counted, chi2_all_used, term_eq_ratio, '
            'chi2_perm_invariant, ndf_perm_invariant, verdict_iff_all_p, sum_nan_of_mem, nan_never_passes (hypothesis '
            'sf nan = nan, checked against scipy on every case). Tied to chi2.py on every run; the oracle recomputes the '
            'statistic with fsum in the formulation of the property and re-evaluates the test with permuted bins.',
            'Trusted: Lean kernel + standard axioms; XReal = exact arithmetic (numpy sums pairwise, the model left to '
            'right: compared within 1e-12 relative); scipy chi2.sf is a parameter (p-values passed as data, recomputed '
            'by the oracle).',
            '10 (C07)'),
    'C08': ('Lean 4 proof: Dataset arithmetic transcribed generically over the number type; value = plain operation, '
            'error rules (quadratic sum for + and -, relative-error form for * and / over exact reals, |c| scaling), '
            'well-formedness and non-negative errors for every finite chain by induction over the command list + '
            'bit-exact differential correspondence on chains over several variables with in-place writes into copies',
            'add_err, sub_err, mul_err_rel, div_err_rel (sqrt((e1 v2)^2+(e2 v1)^2) = |v1 v2| sqrt((e1/v1)^2+(e2/v2)^2) for '
            'non-zero finite values, likewise for quotients), scalar_scales_err, opDS_value, opDS_keeps_left, opDS_wf / '
            'opScalar_wf / opArray_wf / squeeze_wf, *_err_nonneg (NaN and infinities included), chain_wf_nonneg: after any '
            'finite chain of + - * / with datasets, arrays, numbers of either sign, copies, squeezes and edits of copies, '
            'every variable is well formed with non-negative errors; c08_pinned_refuted keeps the pinned scaling (A8) '
            'refuted. "Operands are never modified" and "a copy shares no data" are not expressible about immutable '
            'values: they are decided by the correspondence (per-variable contents tracked by the model, real arrays '
            'poked in place) and by the memory-sharing probe of the oracle.',
            'Trusted: Lean kernel + standard axioms; XReal has exact arithmetic on finite values (rounding covered by the '
            'bit-exact comparison with numpy, 4 ulp for 0-d datasets whose **2 goes through libm pow); array operands of '
            'the same shape, of an incompatible shape, or (datasets with bins) of a shape that numpy broadcasts to a larger '
            'one: rejected by the model and, since the repair A26, by the code; arrays that broadcast into the shape of the '
            'dataset are not generated; masked datasets (np.ma) have no Lean counterpart: operands (values, errors, bins, '
            'masks) unchanged and results well formed are decided by the oracle on chains with repeated masks.',
            '10 (C08)'),
    'C10': ('Lean 4 proof (PARTIAL) + differential correspondence + ground-truth end-to-end checks: the spectrum assembly '
            '(convert_spectrum: bin counting, filling, last bins, flipping of decreasing axes) and the error conversion are '
            'transcribed; proved: error = value x sigma/100 (exact arithmetic) and the orientation step of one axis (printed '
            'decreasing is recognised; bins come out strictly increasing; every printed group keeps its own score)',
            'error_eq_value_times_sigma, decreasing_iff, orient_edges, orient_cells, energy_bins_increasing, '
            'energy_score_attached, and convert_energy_axis / convert_single / fillRows_single: on a response with the energy '
            'axis only the executable model `convert` returns exactly the oriented edges and rows. All four axes, any block '
            'sequence (all_axes_score_attached, via fill_cells / convert_ok / score_at_cursor): when `convert` returns and no two '
            'blocks were read under the same (time step, mu zone, phi zone) indices, every printed row is the content of the '
            'cell at (its row index, those indices) in C order, each axis read through the very flip applied to the bins of '
            'that axis; axis_bins_increasing: that flip makes any strictly monotone edge list strictly increasing; '
            'time_edges_collected: the time edges are the first bounds of the time steps read. grid_scores_attached: a response '
            'printed over a full time x mu x phi grid (blocks in lexicographic order, each key with the first block it applies '
            'to) is read under pairwise distinct indices (cursors_blocks, cursors_blocks_nodup), _get_number_of_bins finds '
            'the three dimensions (nbBins_blocks), and the row printed for (group, time step, mu zone, phi zone) is the '
            'content of the cell at those indices. grid_read (added last): on such a grid convert_spectrum RETURNS and every printed row is in its cell — the former hypothesis is discharged when no block has more rows than the first one, the last block has a row and the rows of the first block continue each other (grid_fill_returns: fill_arrays_and_bins raises neither the bins nor the index error, fillRows_succeeds / fill_succeeds_rest; muKeys_grid / phiKeys_grid: it collects exactly one edge per mu zone and per phi zone, the first printed bounds in order; negBlock_grid / addLast_returns: add_last_bins finds the last edges in the blocks that carry them; grid_convert_returns). '
            'Apollo3 (Model/Ap3.lean, Props/C10Ap3.lean): what Reader (make_bins, hdfdataset_to_dataset, build_dataset, '
            'extract_output_info) and Picker (_make_bins, _make_dataset, nb_anisotropies, pick_standard_value) make of one '
            'stored array is transcribed - picker_eq_reader: on the documented layout both fail or both return the same '
            'dataset; reader_returns_stored / picker_returns_stored: the cells returned are the stored cells in the stored '
            'order and the bins fit the shape; concentration_agree - and compared with both classes on every array of the '
            'synthetic HDF5 files (driver op ap3). NOT proved: grids '
            'without one of the axes, the pyparsing grammar, the mesh / Green '
            'bands / IFP / keff / sensitivity builders, the walk of the Apollo3 reader over the file and h5py. These are decided on every run by (a) '
            'bit-exact correspondence of `convert` with common.convert_spectrum + data_convertor.convert_data on generated '
            'token lists (all four axes, both printing orders, gaps, ragged sub-spectra: same exception class), with an '
            'independent ground-truth oracle (every printed row found under its own bounds); (b) the shipped listings with '
            'every spectrum number re-rendered from fresh ground truth, parsed end to end; (c) the shipped Apollo3 HDF5 files '
            'with every float dataset transformed, Reader vs Picker vs the transformed original.',
            'Trusted: Lean kernel + standard axioms; grammar, transform layer, h5py exercised only; the error of a negative '
            'score is negative (value x sigma%).',
            '10 (C10)'),
    'C11': ('Lean 4 proof over a line-by-line transcription of the Tripoli-4 scanner (Scanner._get_collres, '
            'BatchResultScanner, side outputs, _add_time, Parser.__init__ outcome): the scanner is a fold, so editions closed '
            'in a prefix are closed identically in the complete listing; a cut line closes at most one more block; the '
            'repaired Parser.__init__ has no third outcome + differential correspondence on prefixes of the shipped listings '
            '(outcome, edition keys, block text checksum, times, flags) + deep comparison of every edition that parses with '
            'the same edition of the complete listing, in a long-lived process and in fresh processes',
            'scanLines_append, step_history, prefix_history (same key, same text, same order), cut_line_at_most_one, '
            'collres_of_history (the OrderedDict is the history replayed), repaired_never_crashes, c11_pinned_refuted. '
            'PARTIAL: the pyparsing grammar and the builders behind parse_from_number are not modelled — "never another '
            'exception, never hangs, identical results" for the parse of a block is decided by the correspondence: every '
            'prefix is scanned and every edition parsed by the real code under a 20 s alarm, results compared deeply '
            '(arrays bit for bit) with those of the complete listing; 1% of the cases also in a brand-new interpreter '
            '(history independence); thorough: every byte offset of the listings below 15 kB.',
            'Trusted: Lean kernel + standard axioms; int() modelled for sign + ASCII digits, lines end with \\n; the edition '
            'closed by the cut line itself is outside prefix_history (its parse fails or is compared by the correspondence).',
            '10 (C11)'),
    'C12': ('Lean 4 proof over a three-layer model of the table side of the report: (L1) builders + verbosity dispatch over an '
            'abstract result: failure mark <=> result false for every built-in kind at every non-silent verbosity, Student '
            'rows = failing bins, highlighted cells = failing bins; (L2) reST writer and reader: a written data line reads '
            'back as its (stripped) cells; (L3) slice / join keep cells and highlights aligned + differential correspondence '
            '(templates, shown rows, highlight matrices, the reST text character for character) + docutils parse of every '
            'written table',
            'mark_iff_false (equal, approx-equal, Student, Bonferroni, Holm, metadata, task / test statistics, by labels, '
            'failed evaluation; hypothesis WFRes = what evaluate() guarantees), stats_empty_no_mark (the recorded finding: an '
            'empty statistics result is False with nothing to mark), student_rows_eq_failing, fullTable_marks_failing, '
            'readRow_dataRow, strip_padLeft, highlight_strip, slice_aligned, join_aligned, c12_pinned_refuted. Tied to '
            'table_repr.py / representation.py / rst.py / templates.py on every run: real results of every kind, 6 '
            'verbosities, Table / FullTable / Full representers; every TableTemplate is written with RstTable, compared '
            'with the model text, parsed with docutils (cells and highlight roles read back), sliced and joined.',
            'Trusted: Lean kernel + standard axioms; number formatting is applied by the harness with the code\'s format '
            'string; docutils validity is checked on the implementation, not proved; with FullTable / Full representers '
            'the composite Bonferroni rendering is split into its own part and the part of its first test; plots are not '
            'inspected (no highlight concept); FullRepresenter is not used on N-d datasets with unit axes (its plot side '
            'raises there: noted in DESIGN.md, outside this property).',
            '10 (C12)'),
    'C13': ('Lean 4 proof: reads on the classification dictionary of the statistics results are the identity (induction '
            'over any sequence of reads), hence the verdict is stable; the repaired count returns what the pinned one '
            'returned + differential correspondence under random read sequences + bit-for-bit deep snapshots of every '
            'result kind around every read-only operation',
            'reads_are_identity, reads_prefix_identity, verdict_stable (any finite sequence, any order, of bool / len / '
            'get / contains / counts / view), counts_eq (the repair changes no returned value), clsGet_clsIndex, '
            'c13_pinned_refuted (the pinned count flips the verdict). For the array-backed kinds (equal, approx-equal, '
            'Student, chi-square, Bonferroni, Holm, metadata, by-labels, failed) the statement is trivial in a pure model '
            '(arrays_partial): PARTIAL — it is decided on the real objects by deep snapshots (array bytes, dtypes, shapes, '
            'dictionary keys in order) before and after each of: bool, oracles, counts, table / plot / full '
            'representation at every verbosity, Rst.format_result, fingerprint, data(), pickle, deepcopy, repr; and by '
            'evaluating twice.',
            'Trusted: Lean kernel + standard axioms; representation / formatting / pickling code is a parameter (view) of '
            'the model; in-place edits of shared numpy buffers are runtime behaviour the model cannot exhibit.',
            '10 (C13)'),
    'C17': ('Lean 4 proof: inverted index = direct scan (induction over items, keyword lists and filter chains) + '
            'differential correspondence of the compiled model with Browser on random chains',
            'All items / queries / chains of the model are covered by kernel-checked theorems (index_spec, '
            'pick_eq_scan, filter_eq_scan, select_single_or_error, merge_concat, chain_eq_scan); the model is tied to '
            'browser.py on every run by running both on generated chains and comparing canonical dumps; a direct-scan '
            'oracle on the implementation supplies replayable counterexamples.',
            'Trusted: Lean kernel + propext/Classical.choice/Quot.sound; the hand-written model is tied to the code '
            'only by the sampled correspondence; Python == / hash classes are assigned by the harness.',
            '5 (C17)'),
    'C18': ('Lean 4 proof: classification folds are partitions (generic fold lemma), verdict <=> single good key, '
            'OK+KO=total for every row of the recursive by-labels loop, exact characterisation of the rows by induction over the '
            'labels (index well-formedness + semantic invariant preserved by keep_only) + differential correspondence',
            'tasks_partition / tests_partition / *_success_iff / labels_row_sum / labels_n, and labels_rows_exact (each row '
            'counts exactly the results carrying the requested labels with its values, every such result is in the row of '
            'its combination, no combination has two rows) with labels_total (the totals add up to the number of results '
            'carrying all requested labels, each counted once) proved for all inputs of the model; model tied to stats.py on every run on generated task sections; recount oracle on the implementation.',
            'Trusted: Lean kernel + standard axioms; correspondence is sampled; NOT_A_TEST results and non-string label '
            'values are outside the quantifier.',
            '5 (C18)'),
    'C09': ('Lean 4 proof: Python slice normalisation transcribed; cells (1-d and N-d by induction over axes), edges '
            'a..b / centres a..b-1, well-formedness, squeeze + differential correspondence, exhaustive small scopes in thorough',
            'slice_cells, sliceND_cells, sliceND_length, slice_bins_edges, slice_bins_centres, slice_wf, '
            'empty_selection_empty, squeeze_drops_unit_axes hold for every shape/slice of the model; the model is tied to '
            'Dataset.__getitem__/squeeze on random cases each run and on all small shapes x slices in the thorough tier.',
            'Trusted: Lean kernel + standard axioms; numpy basic slicing is exercised, not modelled beyond row-major '
            'semantics; c09_pinned_refuted keeps the pinned (defective) _get_bins_slice refuted.',
            '5 (C09)'),
    'C06': ('Lean 4 proof over exact IEEE-like reals (XReal): Bonferroni flag rule, Holm rank rule at the original '
            'position via permutation + inverse-argsort lemma (argsortNat_inv), NaN never accepted, inclusion and '
            'pass-both corollaries + bit-exact differential correspondence with tie-group canonicalisation',
            'For every p-value list, level and number of datasets of the model: holm_flag_rank (flag/level of rank k is '
            'reported at position sigma(k)), holm_ranks_perm/sorted, bonf_flag_iff, nan_never_accepted, '
            'verdict_iff_no_flag, bonf_subset_holm_partial (+ the edge lemma showing the excluded point is where the '
            'property contradicts itself), student_pass_passes_both. Tied to bonferroni.py by running '
            'TestBonferroni/TestHolmBonferroni.evaluate() and the compiled model on the same arrays.',
            'Trusted: Lean kernel + standard axioms; XReal has no rounding (levels alpha/(m-k) compared bit-exactly by '
            'the correspondence instead); numpy argsort may rank ties differently (compared per tie group).',
            '5 (C06)'),
    'C16': ('Lean 4 proof: refinement of the positional representation (RList inverted index, swap-with-last removal) '
            'to a node/edge-set spec by induction over edit histories + differential correspondence of the compiled '
            'model (all editing operations, graft/flatten, reduction/closure, queries) with DepGraph + node/edge-set '
            'oracle with reachability; every digraph on <= 4 nodes in thorough',
            'For every history of add_node/remove_node/add_dependency/remove_dependency from the empty graph the '
            'model denotes exactly the nodes and edges of the mathematical graph and raises exactly the prescribed '
            'exceptions (history_refines, history_errors, via addNode/addDep/removeDep/removeNode_refines and the '
            'representation invariant GInv); every RList operation preserves the index invariant (rlist_*_inv, '
            'rlist_getIndex_spec); dependencies() reads the abstraction (dependencies_spec); multi_history_refines: the '
            'same for histories over any number of graphs with copies, in-place merges, sums and inversions (copy_refines, '
            'merge_refines, items_spec, invert_refines: same nodes, exactly the reversed edges), which also gives the independence of copies and derived graphs (the '
            'specification of a graph only changes with its own calls). topo_history: on every such graph the '
            'topological sort returns exactly when the mathematical graph is acyclic, what it returns lists every node '
            'once after all its dependencies (topologicalSort_sound, by the DFS invariant visit_sound), and on a cycle '
            'it fails with the cycle error and nothing else (topologicalSort_total, visit_total: the recursion budget '
            'size+1 is never exhausted). graft_refines_spec: graft(x) refines the set-level graft exactly (x replaced by the nested '
            'graph, dependees -> initial nodes, terminal nodes -> dependencies, constraints passed through an empty nested '
            'graph), with dependees/initial/terminal read through the abstraction (dependees_reads, '
            'initial_terminal_spec); graft_preserves_order: when the nested graph is acyclic and shares no node with the outer '
            'graph, a plain node has to come after another one in the grafted graph exactly when it had to before (one '
            'round of flatten); grafts_preserve_order: the same for any sequence of grafts, each under its hypotheses when its turn '
            'comes, and flatten_round_eq: one round of the model flatten is such a sequence. closure_spec / reduction_spec: on acyclic graphs transitive_closure gives an edge exactly where '
            'there was a path and transitive_reduction keeps exactly the edges that no longer path doubles, both with the same '
            'nodes and the same reachability, with the most / the fewest edges among all graphs of that reachability '
            '(closure_most, reduction_fewest); the recursive visits compute reachability (cloVisit_spec, redVisit_spec, '
            'budget size+1 sufficient by a rank from the topological order) and the in-place loops are handled by an '
            'invariant per processed position; <= and == read the abstraction (le_reads: sub-graph; eq_reads: same nodes and '
            'same edges); flatten_all_plain: when flatten(recurse=True) returns only plain nodes are left (partial '
            'correctness of the loop over the nested levels), flatten_one_level_returns: it does return, on a well-formed graph '
            'of plain nodes, when the nested graphs hold plain nodes only, flatten_returns: and on every well-founded nesting (nested '
            'graphs ranked so that a graph only holds graphs of smaller rank; the same graph may stand at several levels), '
            'within rank + 1 rounds; depends_rec_reads: depends(x, y, recurse=True) always answers, with the truth, on every graph a '
            'history can build, cycles included (invariant of the breadth-first waves + the measure that every wave that '
            'does not answer sees a new position: size + 1 waves are enough); dependencies_rec_returns: dependencies(x, recurse=True) always returns, cycles included, with exactly the nodes reachable '
            'in one step or more (partial correctness by a loop invariant, dependencies_rec_reads; totality by the stack discipline of '
            'the work list: a second copy of a processed position is only popped after all its successors have been seen and pushes '
            'nothing, so (size - |seen|) * (size + 1) + |queue| decreases at every round, depsLoop_total). That flatten(recurse=True) returns is a theorem (flatten_returns); flatten_order_preserved / flatten_order_all_plain: on every '
            'well-founded, tree-like nesting of acyclic graphs (every node owned by the one nested node whose graph holds it) the '
            'flattened graph is acyclic, holds exactly the plain nodes of the nesting, and two of them have to come one after the '
            'other exactly when they had to in the nesting (between the plain nodes of the outer graph: exactly when they had to in '
            'that graph) - all levels at once, hypotheses on the initial graph and the store only (invariant over the grafts: owners '
            'of the nodes present have been grafted, graft_acyclic, order into / out of / inside a grafted graph). Nestings in which '
            'one graph object stands at several places are checked against DepGraph and the set-level oracle on every run.',
            'Trusted: Lean kernel + standard axioms; correspondence sampled (exhaustive <= 4 nodes in thorough); node '
            'identity = Python id(); topological order compared for validity, not equality; graft/flatten only on '
            'acyclic expansions; c16_pinned_refuted keeps the pinned graft (A19) refuted.',
            '5 (C16)'),
    'C14': ('Lean 4 proof: file-state invariant over histories of write / crash-at-any-byte / delete / corrupt, '
            'read_env = function of the completely written files (pickle as a parametric prefix-free codec, '
            'hypotheses satisfiable and checked on real pickle at every byte) + differential correspondence through '
            'the real write_env/read_env on temp dirs + every-byte truncation sweep',
            'bad_file_not_done: for every history of writes, writes killed after any number of bytes of any file, '
            'deletions and corruptions, read_env (model of the repaired from_file) does not raise and every entry it '
            'returns is a DONE entry held by a completely written file (never_spurious_done); roundtrip: a DONE entry '
            'with output_dir root/<name> is read back exactly, whatever the files held before; read_total gives the '
            'result as a function of the ghost file states; simpleCodec_good shows the codec hypotheses are satisfiable; '
            'c14_pinned_refuted keeps the pinned from_file (A16) refuted. Tied to the code by running the same '
            'histories through write_env/read_env with real pickle and by cutting a written file at every byte.',
            'Trusted: Lean kernel + standard axioms; pickle modelled as a codec whose proper prefixes raise '
            'EOFError/UnpicklingError (checked at every byte of the swept files); a killed writer leaves a byte prefix; '
            'unreadable content limited to the exception classes pickle documents or a non-Env object.',
            '5 (C14)'),
    'C19': ('Lean 4 proof: the command loop as a fold with early stop; closed form of the run result (status, return '
            'codes, both captured streams) in terms of the prefix of commands actually run; sanitize_filename is the '
            'identity on accepted names + differential correspondence with real subprocesses through RunTask.do and '
            'the real Scheduler',
            'For every list of command lines and every behaviour of each command (exit code, output on both streams, '
            'or cannot be started): done_iff_all_zero, codes_are_prefix, not_run_after_failure (commands after the '
            'first failure have no influence), spawn_error_fails_task_not_run, output_in_order, status_total; '
            'outdir_injective and bad_name_fails_task for every task name; build_eq_run / build_done_iff: the configure-then-'
            'build sequence of BuildTask (code.py) is the two commands run in sequence, so the same statements hold for it. '
            'Tied to run.py by running generated '
            'command lists as real /bin/sh processes (missing / non-executable programs included) through RunTask.do '
            'and through Scheduler+QueueScheduling, comparing status, return codes, directory and file contents (byte for '
            'byte), and to code.py by BuildTask runs with a scripted stand-in for cmake (journal of the invocations).',
            'Trusted: Lean kernel + standard axioms; process spawning, fd inheritance and shlex.quote are exercised, '
            'not modelled; the worker\'s exception-to-FAILED mapping is part of the scheduler model (C02).',
            '5 (C19)'),
    'C20': ('Lean 4 proof: tree induction (mutual structural recursion over sections/items) on the report writer: '
            'pages = sections in pre-order at the path of their chain of titles, anchors over all pages are a '
            'permutation of the results of the tree, toc entries resolve to written pages, figures cover the '
            'references, all written paths distinct and never also a directory; rejection = no Written value + '
            'differential correspondence with Rst.format_report(...).write(tmpdir) + independent tree oracle',
            'For every report tree with distinct sibling titles: write_ok_iff (when and what write returns), '
            'pages_bijective, result_exactly_once, toc_targets_written, figures_written, no_overwrite, '
            'bad_title_writes_nothing (an invalid title / too deep a tree / a path collision gives an error value, so '
            'nothing is written); c20_pinned_refuted keeps the pinned writer refuted (index collision, late '
            'validation). Tied to rst.py by writing generated trees (reserved, invalid, repeated, nested titles; depth '
            'to 6) to a temp dir and comparing the file list and, per page, anchors, image targets and toctree '
            'entries with the compiled model.',
            'Trusted: Lean kernel + standard axioms; the model is tree-level: trees with equally titled siblings '
            '(pages merged by the code through its title-chain dictionaries) are checked by the oracle only; '
            'matplotlib stubbed; toctree resolution as Sphinx (relative to the listing page).',
            '5 (C20)'),
    'C15': ('Lean 4 proof: caches that remember the request of every generated task: invariant (every cached task records '
            'the request it was generated from; ids fresh; names immutable; cache append-only) preserved along every '
            'history; identical requests hit the cache, a different request always gets a task of its own; worklist '
            'closure nodup/sound/closed/complete for any dependency relation (cycles included: invariant + finite measure); unique-name check <=> Nodup + differential correspondence through '
            'Use/UseRun/RunTaskFactory with behaviour probes (every generated task is executed)',
            'For every history of Use.get_task / RunTaskFactory.make / new factories / base tasks (history_good): '
            'task_runs_its_own_request (the task returned records exactly its own request), same_request_same_task '
            '(in any later state), different_request_not_shared (two calls returning the same task made the same '
            'request), make_runs_its_own_request; close_nodup / close_sound / close_closed / '
            'close_complete (unbounded reachability, given more rounds than tasks) for close_dependency_graph and duplicate_names_rejected for check_unique_task_names; '
            'c15_pinned_refuted keeps the pinned name-only cache (A17) refuted. Tied to the code by generated call '
            'histories whose returned tasks are compared by identity class and executed on a prepared environment.',
            'Trusted: Lean kernel + standard axioms; det_hash injective; tasks and functions compared by identity; '
            'functools.partial wrappers not generated '
            '(rejected by Use: no __name__); UseRun modelled as make + one get_task per post-processing function.',
            '5 (C15)'),
}

NOT_YET = 'check not built yet in this round (planned in DESIGN.md section 5); no claim is made'


def main():
    checks = []
    for pid in ALL:
        if pid not in CHECKS:
            continue
        tech, text, note, ref = CHECKS[pid]
        checks.append({
            'property_id': pid,
            'quick_cmd': f'./check {pid} --tier quick',
            'thorough_cmd': f'./check {pid} --tier thorough',
            'evidence_file': f'evidence/{pid}.json',
            'replay_cmd_template': f'./check {pid} --replay {{path}}',
            'engine': 'lean4-model+correspondence',
            'level_claimed': {'category': 'proof', 'text': text, 'design_ref': f'DESIGN.md section {ref}'},
            'level_note': note,
            'technique': tech,
        })
    manifest = {
        'version': 1,
        'setup_cmd': 'cd lean && lake build',
        'hooks': {'guard': 'VALJEAN_VERIF', 'enable': 'no source hook is needed: the harness instruments valjean from '
                  'outside (module attribute replacement inside the harness process)',
                  'baseline_off_cmd': 'cd /repo && /venv/bin/python -m pytest -ra -q -p no:cacheprovider --timeout=900 '
                  '--continue-on-collection-errors',
                  'source_commits': [], 'add_only': True},
        'engines': [{'name': 'lean4-model+correspondence', 'path': 'lean/ + harness/',
                     'serves_properties': sorted(CHECKS),
                     'kind_free_text': 'Lean 4 model and theorems (lean/Model, lean/Props), compiled model driver '
                     '(vjdriver), Python correspondence harness and property oracles (harness/)'}],
        'checks': checks,
        'notes': 'See DESIGN.md. Every check: lake build + axiom audit of the property theorems, differential '
                 'correspondence model vs /repo working tree, property oracle on the implementation.',
        'not_applicable': [{'property_id': pid, 'reason': NOT_YET} for pid in ALL if pid not in CHECKS],
    }
    with open(os.path.join(VERIF, 'MANIFEST.json'), 'w', encoding='utf-8') as fobj:
        json.dump(manifest, fobj, indent=1)
        fobj.write('\n')


if __name__ == '__main__':
    main()
