#!/bin/sh
# usage: harness/seedcorpus.sh [jobs]  — for every kept seeded change: run the quick check against it (scratch copy of /repo
# HEAD with the change) and keep the minimized failing case of the replay as corpus/<prop>/seed-<id>.json (the corpus runs
# first in every check: a change of that kind is then caught at once, whatever the seed).  Cases already in the corpus are
# not replaced.  Prints one line per change.
cd "$(dirname "$0")/.." || exit 2
JOBS="${1:-4}"
ls -d seeded/*/ | xargs -P "$JOBS" -I{} sh -c '
  d={}; id=$(basename "$d"); prop=${id%%-*}
  [ -f "corpus/$prop/seed-$id.json" ] && { echo "$id kept-already"; exit 0; }
  n=$(echo "$id" | cksum | cut -d" " -f1); seed=$((n % 100000 + 1000))
  out=$(VERIF_SEED=$seed VERIF_NO_OPT_PASS=1 harness/seedtest.sh "$prop" "$(pwd)/$d/patch.diff" 2>&1)
  rep="replays/$prop/$seed-0.json"
  if echo "$out" | grep -q "^VIOLATION property=$prop " && [ -f "$rep" ]; then
    /venv/bin/python - "$rep" "corpus/$prop/seed-$id.json" <<PY
import json, sys
rep = json.load(open(sys.argv[1]))
if rep.get("kind") in ("counterexample", "no-failing-input-found") and rep.get("case") is not None:
    import os
    os.makedirs(os.path.dirname(sys.argv[2]), exist_ok=True)
    json.dump(rep["case"], open(sys.argv[2], "w"), sort_keys=True)
    print("$id corpus")
else:
    print("$id no-concrete-case")
PY
  else echo "$id not-detected-at-seed-$seed"; fi'
