"""C02 — scheduler property (see schedcommon.py and DESIGN.md section 5)."""
from props import schedcommon as sc

PROPERTY = 'C02'
THEOREMS = ['Sched.final_status_eq_spec', 'Sched.schedule_independent', 'Sched.soft_never_blocks', 'Sched.InvB_step', 'Sched.InvB_init', 'Sched.spec_eq', 'Sched.exec_at_most_once', 'Sched.exec_count_eq_spec', 'Sched.InvE_step']
BUDGET = {'quick': 700, 'thorough': 6000}
TIME_LIMIT = {'quick': 55, 'thorough': 700}
RULE = ('single runs from an empty environment, all outcome kinds (done, FAILED returned, exception, SystemExit, None, not a pair, bad / non-final status, update that is not a mapping - also falsy - or that replaces the own entry); 25%: a second job with another graph over the same task names, on the same backend object, again from an empty environment' + '; the real QueueScheduling backend runs under the controlled scheduler; non-trivial = '
        '>= 3 tasks with >= 2 edges on >= 2 workers, or a special feature (cycle, stale entries, same backend, lost '
        'entries, several rounds); distinct = case hash')
CORRESPONDS = sc.CORRESPONDS
TRUSTED = sc.TRUSTED
ASSUMPTIONS = sc.ASSUMPTIONS

# debug logging formats the environment (Env.__repr__ takes the environment lock): under the controlled scheduler these
# are extra recorded steps the model does not have - the recorded schedule changes, not the behaviour
AMBIENT_DEBUGLOG = False


def gen(rng, tier, run):
    return sc.gen(rng, tier, 'C02')


shrink = sc.shrink
run_impl = sc.run_impl
run_model = sc.run_model
compare = sc.compare


def oracle(case, impl, run):
    sc.histogram(case, impl, run)
    return sc.oracle_c02(case, impl, run)[:6]


def nontrivial(case, impl):
    return sc.nontrivial_key(case, impl)


def signature(case, clause, detail):
    return clause
