"""C07 — the chi-square verdict matches the chi-square law on the bins actually used."""
import math
from vcheck.fl import bits, unbits

PROPERTY = 'C07'
THEOREMS = ['Chi2.ndf_eq_count', 'Chi2.left_out_iff_both_zero', 'Chi2.left_out_not_counted', 'Chi2.term_eq_ratio',
            'Chi2.chi2_perm_invariant', 'Chi2.ndf_perm_invariant', 'Chi2.verdict_iff_all_p', 'Chi2.nan_never_passes',
            'Chi2.chi2_all_used', 'Chi2.sum_nan_of_mem']
BUDGET = {'quick': 1200, 'thorough': 20000}
TIME_LIMIT = {'quick': 50, 'thorough': 800}
RULE = ('datasets of shape () to 3-d (1-60 bins), 1-3 compared datasets at 0-4 sigma from the reference, errors >= 0 with '
        'arbitrary patterns of zeros (none / some / all bins, one or both sides) and strictly positive errors whose squares '
        'underflow (12% of the cases), integer-valued datasets given as integer arrays (15%), both settings of ignore_empty, NaN and '
        'infinities injected only when ignore_empty is off, alpha log-uniform in (1e-4, 1); every case is also evaluated '
        'with its bins permuted; non-trivial = a bin left out, or a failing dataset, or a special value; distinct = case hash')
CORRESPONDS = ('Model/Chi2.lean (used, term, chi2 = sum over the used bins, ndf, oracles, verdict) vs TestChi2 '
               '(chi2 within 1e-12 relative: numpy sums pairwise, the model left to right; ndf, oracles, verdict exact)')
TRUSTED = ['harness/props/c07.py (generator, fsum-based recomputation in the formulation of the property)',
           'vjdriver (compiled Model/Chi2.lean, IEEE binary64)',
           'scipy chi2.sf: the p-values are passed to the model as data; sf(nan) = nan and sf in [0, 1] checked on every case']
ASSUMPTIONS = ['rounding is not modelled by the theorems; the order independence of the sum is a theorem in exact arithmetic '
               'and is checked on the implementation within 1e-12 relative',
               'no verdict comparison between a case and its permutation when a p-value is within 1e-9 relative of alpha',
               'with ignore_empty the errors are finite (the property\'s quantifier)']


def gen(rng, tier, run):
    shape = rng.choice([[], [1], [3], [5], [17], [60], [2, 3], [4, 5], [2, 2, 3], [1, 1], [150]])
    size = 1
    for n in shape:
        size *= n
    nds = rng.choice([1, 1, 2, 3])
    ignore = rng.random() < 0.5
    alpha = 10 ** rng.uniform(-4, -0.02) if rng.random() < 0.8 else rng.choice([0.01, 0.05, 0.5])
    spread = rng.choice([0.5, 1.0, 1.0, 1.5, 4.0])
    zero_mode = rng.choice(['none', 'some', 'some', 'many', 'all'])
    pz = {'none': 0.0, 'some': 0.15, 'many': 0.6, 'all': 1.0}[zero_mode]

    tiny = rng.random() < 0.12      # strictly positive errors whose squares underflow

    def err():
        if tiny and rng.random() < 0.4:
            return rng.choice([1e-170, 5e-324, 1e-200, 2.2250738585072014e-308, 1.4e-162])
        return 0.0 if rng.random() < pz else rng.choice([rng.uniform(0.01, 5.0), float(rng.randrange(1, 5))])

    ref = {'v': [rng.choice([rng.uniform(-100, 100), float(rng.randrange(-5, 6))]) for _ in range(size)],
           'e': [err() for _ in range(size)]}
    dss = []
    for _ in range(nds):
        e = [err() for _ in range(size)]
        v = []
        for i in range(size):
            sig = math.sqrt(ref['e'][i] ** 2 + e[i] ** 2)
            if sig == 0:
                v.append(ref['v'][i] + rng.choice([0.0, 0.0, 0.0, 1.0]))
            else:
                v.append(ref['v'][i] + rng.gauss(0, spread) * sig)
        dss.append({'v': v, 'e': e})
    if not ignore and rng.random() < 0.25:
        for _ in range(rng.randrange(1, 3)):
            tgt = rng.choice([ref] + dss)
            key = rng.choice('ve')
            val = rng.choice([float('nan'), float('inf'), float('-inf')])
            if key == 'e' and val < 0:
                val = float('inf')
            tgt[key][rng.randrange(size)] = val
    perm = list(range(size))
    rng.shuffle(perm)
    # integer-valued datasets (legal input: Dataset accepts integer arrays)
    if rng.random() < 0.15:
        for d in [ref] + dss:
            if rng.random() < 0.6 and all(math.isfinite(x) for x in d['v'] + d['e']):
                d['v'] = [float(round(x)) for x in d['v']]
                d['e'] = [float(round(x)) for x in d['e']]
                d['int'] = True

    def enc(d):
        out = {'v': [bits(x) for x in d['v']], 'e': [bits(x) for x in d['e']]}
        if d.get('int'):
            out['int'] = True
        return out
    return {'shape': shape, 'ref': enc(ref), 'dss': [enc(d) for d in dss], 'alpha': alpha, 'ignore': ignore, 'perm': perm}


def shrink(case):
    if len(case['dss']) > 1:
        for i in range(len(case['dss'])):
            yield dict(case, dss=case['dss'][:i] + case['dss'][i + 1:])
    size = len(case['ref']['v'])
    if size > 1:
        for i in range(size):
            def cut(d):
                return dict(d, v=d['v'][:i] + d['v'][i + 1:], e=d['e'][:i] + d['e'][i + 1:])
            yield dict(case, shape=[size - 1], ref=cut(case['ref']), dss=[cut(d) for d in case['dss']],
                       perm=list(range(size - 1)))


def mkds(d, shape, perm=None):
    import numpy as np
    from valjean.eponine.dataset import Dataset
    v = [unbits(x) for x in d['v']]
    e = [unbits(x) for x in d['e']]
    if perm is not None:
        v = [v[i] for i in perm]
        e = [e[i] for i in perm]
    dtype = int if d.get('int') else float
    if shape:
        return Dataset(np.array(v, dtype=dtype).reshape(shape), np.array(e, dtype=dtype).reshape(shape))
    return Dataset(np.int64(v[0]), np.int64(e[0])) if d.get('int') else Dataset(np.float64(v[0]), np.float64(e[0]))


_FLAGS = {}


def evaluate(ref, dss, alpha, ignore):
    import numpy as np
    from valjean.gavroche.stat_tests.chi2 import TestChi2
    test = TestChi2(ref, *dss, name='c', alpha=alpha, ignore_empty=ignore)
    res = test.evaluate()
    # the same test object evaluated once more gives the same result
    res2 = test.evaluate()
    _FLAGS['same_object_again'] = (_FLAGS.get('same_object_again', True) and bool(res2) == bool(res)
                                   and [bits(x) for x in res2.chi2] == [bits(x) for x in res.chi2]
                                   and [bits(x) for x in res2.pvalue] == [bits(x) for x in res.pvalue])
    return {'chi2': [bits(x) for x in res.chi2], 'ndf': [int(n) for n in test.ndf],
            'p': [bits(x) for x in res.pvalue], 'oracles': [bool(x) for x in np.asarray(res.oracles()).flatten()],
            'verdict': bool(res),
            'mask': [[bool(x) for x in np.asarray(m).flatten()] for m in test.nonzero_bins]}


_LAST = {}


def run_impl(case, run):
    import warnings
    import numpy as np
    warnings.simplefilter('ignore')
    np.seterr(all='ignore')
    out = {}
    _FLAGS.clear()
    try:
        shape = case['shape']
        ref = mkds(case['ref'], shape)
        dss = [mkds(d, shape) for d in case['dss']]
        snap = [(np.asarray(d.value).tobytes(), np.asarray(d.error).tobytes()) for d in [ref] + dss]
        out.update(evaluate(ref, dss, case['alpha'], case['ignore']))
        out['inputs_unchanged'] = snap == [(np.asarray(d.value).tobytes(), np.asarray(d.error).tobytes()) for d in [ref] + dss]
        out['permuted'] = evaluate(mkds(case['ref'], shape, case['perm']), [mkds(d, shape, case['perm']) for d in case['dss']],
                                   case['alpha'], case['ignore'])
        out['same_object_again'] = _FLAGS.get('same_object_again', True)
        # datasets edited in place after a first comparison are compared as what they are now
        if shape and np.asarray(dss[0].error).dtype.kind == 'f' and np.asarray(ref.value).dtype.kind == 'f':
            dss[0].error *= 2.0
            ref.value += 1.0
            fresh_ref = mkds(case['ref'], shape)
            fresh_ref.value += 1.0
            fresh = [mkds(d, shape) for d in case['dss']]
            fresh[0].error *= 2.0
            out['edited_same'] = evaluate(ref, dss, case['alpha'], case['ignore']) == evaluate(fresh_ref, fresh, case['alpha'], case['ignore'])
        # the level set to the very probability of a compared dataset: "exceeds" is strict, that dataset does not pass
        at_level = []
        for i, pb in enumerate(out['p']):
            pval = unbits(pb)
            if 0.0 < pval < 1.0:
                fresh_ref = mkds(case['ref'], shape)
                fresh = [mkds(d, shape) for d in case['dss']]
                again = evaluate(fresh_ref, fresh, pval, case['ignore'])
                if again['p'] == out['p']:
                    at_level.append([i, pval, again['oracles'][i], again['verdict']])
        out['at_level'] = at_level
        from scipy.stats import chi2 as law
        out['law'] = {'sf_nan': bits(law.sf(float('nan'), 3)),
                      'recomputed': [bits(law.sf(unbits(c), n)) for c, n in zip(out['chi2'], out['ndf'])]}
    except Exception as exc:  # pylint: disable=broad-except
        out['exception'] = f'{type(exc).__name__}: {exc}'[:200]
    _LAST['impl'] = out
    return out


def run_model(case, driver, run):
    impl = _LAST.get('impl') or {}
    if 'p' not in impl:
        return {'skipped': True}
    return driver.ask('chi2', {'ref': case['ref'], 'dss': case['dss'], 'ignore': case['ignore'], 'alpha': bits(case['alpha']),
                               'p': impl['p']})


def close(a, b, rel):
    x, y = unbits(a), unbits(b)
    if math.isnan(x) or math.isnan(y):
        return math.isnan(x) and math.isnan(y)
    if math.isinf(x) or math.isinf(y):
        return x == y
    return abs(x - y) <= rel * max(abs(x), abs(y))


def compare(case, impl, model):
    if model.get('skipped'):
        return None if 'exception' in impl else 'model skipped'
    if impl['ndf'] != model['ndf']:
        return f"ndf: impl={impl['ndf']} model={model['ndf']}"
    for i, (a, b) in enumerate(zip(impl['chi2'], model['chi2'])):
        if not close(a, b, 1e-12 if case['shape'] else 1e-14):
            return f'chi2[{i}]: impl={unbits(a)!r} model={unbits(b)!r}'
    if impl['oracles'] != model['oracles'] or impl['verdict'] != model['verdict']:
        return f"oracles/verdict: impl={impl['oracles']}/{impl['verdict']} model={model['oracles']}/{model['verdict']}"
    return None


def oracle(case, impl, run):
    fails = []
    run.count(f"ndim={len(case['shape'])}")
    run.count(f"ignore_empty={case['ignore']}")
    if 'exception' in impl:
        return [('no_exception', impl['exception'])]
    if impl.get('same_object_again') is False:
        fails.append(('history_independent', 'a second evaluate() on the same test object gives another result'))
    for i, pval, orc, verdict in impl.get('at_level', []):
        run.count('level=pvalue')
        if orc or verdict:
            fails.append(('verdict_iff_all_p_exceed_alpha', f'level set to the probability {pval!r} of dataset {i}: that probability '
                          f'does not exceed the level, yet oracle={orc}, verdict={verdict}'))
    if impl.get('edited_same') is False:
        fails.append(('history_independent', 'datasets edited in place after a first comparison do not compare like new datasets '
                      'with the same content'))
    alpha = case['alpha']
    ref_v = [unbits(x) for x in case['ref']['v']]
    ref_e = [unbits(x) for x in case['ref']['e']]
    for di, d in enumerate(case['dss']):
        dv = [unbits(x) for x in d['v']]
        de = [unbits(x) for x in d['e']]
        terms, left_out = [], 0
        for i, (v1, e1, v2, e2) in enumerate(zip(ref_v, ref_e, dv, de)):
            both_zero = (e1 == 0 and e2 == 0)
            out = case['ignore'] and both_zero
            if impl['mask'][di][i] != (not out):
                fails.append(('left_out_iff_both_zero', f'dataset {di} bin {i}: errors ({e1}, {e2}), ignore_empty={case["ignore"]}, used={impl["mask"][di][i]}'))
            if out:
                left_out += 1
                continue
            s = e1 * e1 + e2 * e2
            diff = v1 - v2
            with_nan = any(map(math.isnan, (diff, s)))
            if with_nan or (s == 0 and diff == 0) or (math.isinf(diff) and math.isinf(s)):
                terms.append(float('nan'))
            elif s == 0:
                terms.append(float('inf'))
            elif math.isinf(s):
                terms.append(0.0)
            else:
                terms.append(diff * diff / s)
        run.count('left_out>0' if left_out else 'left_out=0')
        if impl['ndf'][di] != len(terms):
            fails.append(('ndf_eq_count', f'dataset {di}: ndf {impl["ndf"][di]} but {len(terms)} bins are used'))
        chi2 = unbits(impl['chi2'][di])
        if any(math.isnan(t) for t in terms):
            exp = float('nan')
        elif any(math.isinf(t) for t in terms):
            exp = float('inf')
        else:
            exp = math.fsum(terms)
        if math.isnan(exp) != math.isnan(chi2) or (not math.isnan(exp) and (
                (math.isinf(exp) or math.isinf(chi2)) and exp != chi2 or
                (math.isfinite(exp) and math.isfinite(chi2) and abs(exp - chi2) > 1e-9 * max(abs(exp), 1e-300)))):
            if not (math.isfinite(exp) and exp > 1e300):
                fails.append(('chi2_is_sum_over_used_bins', f'dataset {di}: reported {chi2}, sum over the {len(terms)} used bins = {exp}'))
        p = unbits(impl['p'][di])
        rec = unbits(impl['law']['recomputed'][di])
        if not (p == rec or (math.isnan(p) and math.isnan(rec))):
            fails.append(('pvalue_is_upper_tail', f'dataset {di}: p = {p}, chi2.sf({chi2}, {impl["ndf"][di]}) = {rec}'))
        if impl['oracles'][di] != (p > alpha):
            fails.append(('verdict_iff_all_p', f'dataset {di}: p = {p}, alpha = {alpha}, oracle {impl["oracles"][di]}'))
        if math.isnan(chi2):
            run.count('chi2=nan')
            if left_out == 0 and impl['oracles'][di]:
                fails.append(('nan_never_passes', f'dataset {di}: statistic undefined, no bin left out, yet accepted'))
        # order independence
        pm = impl['permuted']
        if pm['ndf'][di] != impl['ndf'][di] or not close(pm['chi2'][di], impl['chi2'][di], 1e-12):
            fails.append(('chi2_perm_invariant', f'dataset {di}: after permuting the bins chi2 {unbits(pm["chi2"][di])} ndf {pm["ndf"][di]} '
                          f'(before: {chi2}, {impl["ndf"][di]})'))
        elif pm['oracles'][di] != impl['oracles'][di] and not (math.isfinite(p) and abs(p - alpha) <= 1e-9 * alpha):
            fails.append(('chi2_perm_invariant', f'dataset {di}: the oracle changed after permuting the bins'))
    if impl['verdict'] != all(impl['oracles']):
        fails.append(('verdict_iff_all_p', f"verdict {impl['verdict']} but oracles {impl['oracles']}"))
    if not impl.get('inputs_unchanged', True):
        fails.append(('inputs_unchanged', 'evaluate() modified a dataset'))
    if impl['law']['sf_nan'] != 'nan':
        fails.append(('law_assumptions', 'scipy chi2.sf(nan) is not nan'))
    run.count('verdict=' + str(impl['verdict']))
    return fails


def nontrivial(case, impl):
    if 'exception' in impl:
        return None
    if not impl['verdict'] or any(False in m for m in impl['mask']) or any(x == 'nan' for x in impl['chi2']):
        return case
    return None


def signature(case, clause, detail):
    return clause
