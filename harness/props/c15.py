"""C15 — generated tasks correspond one-to-one to what was asked for
(valjean/cosette/use.py, valjean/cosette/run.py RunTaskFactory, valjean/cosette/task.py close_dependency_graph,
valjean/cambronne/common.py check_unique_task_names)."""
import os
import shutil
import tempfile

PROPERTY = 'C15'
THEOREMS = ['UseM.task_runs_its_own_request', 'UseM.different_request_not_shared', 'UseM.same_request_same_task',
            'UseM.history_good', 'UseM.make_runs_its_own_request', 'UseM.close_nodup', 'UseM.close_sound',
            'UseM.close_closed', 'UseM.close_complete', 'UseM.close_complete_bounded', 'UseM.duplicate_names_rejected', 'UseM.c15_pinned_refuted']
BUDGET = {'quick': 1500, 'thorough': 30000}
TIME_LIMIT = {'quick': 50, 'thorough': 600}
RULE = ('histories (2-12 calls) of Use.from_func(...).get_task() [same-named functions, lambdas, hard/soft, positional/'
        'keyword injection, keys result/other/None, serialize], RunTaskFactory.make [user names, extra args, keywords '
        'over factory defaults, subprocess args, deps, soft deps; 3 in 10: the caller appends to the lists it passed right '
        'after the call], factory.copy(), UseRun(...).map(...)(**kw), then '
        'close_dependency_graph + check_unique_task_names on a random subset, and (3 in 10) close_dependency_graph on 1-6 '
        'fresh tasks wired by hand into any graph, cycles and self-dependencies included (10 s of processor time = hang); '
        'wrappers sometimes decorated further and then used again; every generated task is executed on a '
        'prepared environment to observe its behaviour; non-trivial = at least one cache hit or explicit error; '
        'distinct = case hash')
CORRESPONDS = ('Model/Use.lean (getTask, make, useRunCall, newFactory, closeDeps, uniqueNames) vs valjean.cosette.use.Use/'
               'UseRun, valjean.cosette.run.RunTaskFactory, close_dependency_graph, check_unique_task_names')
TRUSTED = ['harness/props/c15.py (generator, behaviour probes, oracle)', 'vjdriver (compiled Model/Use.lean)']
ASSUMPTIONS = ['det_hash (sha256 of the JSON of its arguments) is injective on the generated arguments',
               'task objects and functions are compared by identity (two task objects with the same name are different tasks)',
               'functions are compared by identity; functools.partial objects are not generated (Use rejects them: no __name__)',
               'Use._CACHE is cleared between cases (it is process-global)']

FUNC_NAMES = ['f', 'f', 'g', '<lambda>', '<lambda>', 'post']
KEYS = ['result', 'result', 'other', None, 0, '']      # 0 and '' are keys like any other (only None is special)
FOODS = ['egg', 'spam', 'bacon']


def ref(rng, oks):
    return rng.choice(oks)


def gen(rng, tier, run):
    ops = [['base', rng.choice(['a', 'b', 'a'])] for _ in range(rng.randrange(1, 4))]
    oks = list(range(len(ops)))          # op indices that (are expected to) return a task
    nfac = 0
    nfuncs = rng.randrange(2, 6)
    funcs = [[i, rng.choice(FUNC_NAMES)] for i in range(nfuncs)]
    # partial applications (with a __name__, as valjean's stats_worker builds them): [id, name, base, keyword value];
    # same (base, value) = same function, although every use builds a new partial object
    for base in range(rng.choice([0, 0, 1, 2])):
        for val in range(rng.randrange(1, 3)):
            funcs.append([100 + 10 * base + val, f'part{base}', base, val])
    for _ in range(rng.randrange(2, 13)):
        r = rng.random()
        if r < 0.45:
            if rng.random() < 0.3 and any(o[0] == 'use' for o in ops):
                prev = rng.choice([o for o in ops if o[0] == 'use'])
                op = [x if not isinstance(x, list) else [list(y) if isinstance(y, list) else y for y in x] for x in prev]
                mut = rng.random()
                if mut < 0.35:
                    pass                                   # identical request
                elif mut < 0.5:
                    op[1] = rng.choice(funcs)
                elif mut < 0.65 and op[2]:
                    op[2][0][1] = rng.choice(KEYS)
                elif mut < 0.8:
                    op[4] = 'soft' if op[4] == 'hard' else 'hard'
                elif mut < 0.9 and op[2]:
                    t, k = op[2].pop()
                    op[3] = [e for e in op[3] if e[0] != 'kw'] + [['kw', t, k]]
                else:
                    op[5] = not op[5]
            else:
                nargs = rng.choice([1, 1, 2])
                args = [[ref(rng, oks), rng.choice(KEYS)] for _ in range(nargs)]
                kwargs = []
                if rng.random() < 0.3:
                    kwargs = [['kw', ref(rng, oks), rng.choice(KEYS)]]
                    if rng.random() < 0.5:
                        args = args[1:]
                op = ['use', rng.choice(funcs), args, kwargs, 'hard' if rng.random() < 0.75 else 'soft',
                      rng.random() < 0.15]
                if rng.random() < 0.2:     # wrappers derived from this one before it is used again: [kwarg or None, task, key]
                    op.append([[rng.choice([None, None, 'kx']), ref(rng, oks), rng.choice(KEYS)]
                               for _ in range(rng.randrange(1, 3))])
            ops.append(op)
            oks.append(len(ops) - 1)
        elif r < 0.55 or nfac == 0:
            fac = ['factory', rng.choice(['echo', 'echo', 'cat']), [['food', rng.choice(FOODS)], ['side', 'x']]]
            if rng.random() < 0.35:
                # dependencies given to the factory itself: every task it makes (and every task made by its copies) has them
                bases = [i for i, o in enumerate(ops) if o[0] == 'base']
                fac.append([rng.sample(bases, rng.randrange(0, min(2, len(bases)) + 1)),
                            rng.sample(bases, rng.randrange(0, min(2, len(bases)) + 1))])
            ops.append(fac)
            nfac += 1
        elif r < 0.6:
            ops.append(['copy', rng.randrange(nfac)])
            nfac += 1
        else:
            if rng.random() < 0.35 and any(o[0] in ('make', 'userun') for o in ops):
                prev = rng.choice([o for o in ops if o[0] in ('make', 'userun')])
                op = [x if not isinstance(x, list) else [list(y) if isinstance(y, list) else y for y in x] for x in prev]
                o = 2 if op[0] == 'make' else 3
                mut = rng.random()
                if mut < 0.35:
                    pass
                elif mut < 0.5:
                    op[o + 1] = op[o + 1] + ['more']
                elif mut < 0.62:
                    op[o + 2] = [['food', rng.choice(FOODS)]]
                elif mut < 0.74:
                    op[o + 3] = [] if op[o + 3] else [['VJ', 'v']]
                elif mut < 0.86:
                    op[o + 4] = op[o + 4] + [ref(rng, oks)]
                elif mut < 0.95:
                    op[o + 5] = op[o + 5] + [ref(rng, oks)]
                else:
                    op[1] = rng.randrange(nfac)
            else:
                make = [rng.choice([None, None, 'run1', 'run2']), [rng.choice(FOODS)] if rng.random() < 0.5 else [],
                        [['food', rng.choice(FOODS)]] if rng.random() < 0.5 else [],
                        [['VJ', rng.choice(['v', 'w'])]] if rng.random() < 0.3 else [],
                        [ref(rng, oks)] if rng.random() < 0.3 else [], [ref(rng, oks)] if rng.random() < 0.2 else []]
                make.append(rng.random() < 0.3)      # the caller edits the containers it passed, after the call
                if rng.random() < 0.3:
                    op = ['userun', rng.randrange(nfac), [rng.choice(funcs) for _ in range(rng.randrange(0, 3))]] + make
                else:
                    op = ['make', rng.randrange(nfac)] + make
            ops.append(op)
            oks.append(len(ops) - 1)
    if rng.random() < 0.3:
        # collecting the tasks of a job whose tasks were wired by hand (Task.add_dependency): any graph, cycles included
        n = rng.randrange(1, 7)
        edges = [[rng.randrange(n), rng.randrange(n), rng.random() < 0.3] for _ in range(rng.randrange(0, 2 * n + 1))]
        if rng.random() < 0.5:     # a chain, sometimes closed into a ring
            edges += [[i, i + 1, False] for i in range(n - 1)] + ([[n - 1, 0, rng.random() < 0.5]] if rng.random() < 0.6 else [])
        roots = rng.sample(range(n), rng.randrange(1, n + 1))
        if rng.random() < 0.3:     # a task listed twice by the job
            roots.append(rng.choice(roots))
        ops.append(['closegraph', n, edges, roots])
    ops.append(['close', sorted(rng.sample(oks, rng.randrange(1, min(len(oks), 5) + 1)))])
    return {'ops': ops, 'kwd': rng.random() < 0.3}


def shrink(case):
    ops = case['ops']
    # removing an op shifts the references: only remove ops nobody refers to
    def refs(op):
        out = set()
        if op[0] == 'use':
            out |= {a[0] for a in op[2]} | {k[1] for k in op[3]}
            if len(op) > 6:
                out |= {e[1] for e in op[6]}
        elif op[0] in ('make', 'userun'):
            o = 2 if op[0] == 'make' else 3
            out |= set(op[o + 4]) | set(op[o + 5])
        elif op[0] == 'close':
            out |= set(op[1])
        return out
    used = set().union(*[refs(o) for o in ops])
    facs = [i for i, o in enumerate(ops) if o[0] in ('factory', 'copy')]
    for i in range(len(ops) - 1, -1, -1):
        if i in used or ops[i][0] in ('factory', 'copy', 'close'):
            continue

        def shift(x):
            return x - 1 if x > i else x
        new = []
        for j, op in enumerate(ops):
            if j == i:
                continue
            op = [list(map(lambda y: list(y) if isinstance(y, list) else y, x)) if isinstance(x, list) else x for x in op]
            if op[0] == 'use':
                op[2] = [[shift(a[0]), a[1]] for a in op[2]]
                op[3] = [[k[0], shift(k[1]), k[2]] for k in op[3]]
                if len(op) > 6:
                    op[6] = [[e[0], shift(e[1]), e[2]] for e in op[6]]
            elif op[0] in ('make', 'userun'):
                o = 2 if op[0] == 'make' else 3
                op[o + 4] = [shift(x) for x in op[o + 4]]
                op[o + 5] = [shift(x) for x in op[o + 5]]
            elif op[0] == 'close':
                op[1] = [shift(x) for x in op[1]]
            new.append(op)
        yield {'ops': new}


# ------------------------------------------------------------------------------------------------
# implementation
# ------------------------------------------------------------------------------------------------

def make_func(fid, name, calls, kwd=False):
    if kwd:
        # functions that come out of one `def` and differ in a keyword-only default only (same code object, same
        # positional defaults, same closure cells): still one function per request
        def func(*args, _fid=fid, **kwargs):
            calls.append((_fid, args, kwargs))
            return ('ret', _fid)
    else:
        def func(*args, **kwargs):
            calls.append((fid, args, kwargs))
            return ('ret', fid)
    func.__name__ = name
    func.__qualname__ = name
    return func


def make_base(base, calls):
    def func(*args, tag=None, **kwargs):
        calls.append((100 + 10 * base + tag, args, kwargs))
        return ('ret', 100 + 10 * base + tag)
    func.__name__ = f'part{base}'
    func.__qualname__ = f'part{base}'
    return func


_JOBS = [0]


def skey(key):
    """keys as the model and the oracle write them: None, or the text of the key (0 -> '0'; '0' is never generated)"""
    return key if key is None else str(key)


def tok(val):
    """canonical form of an injected value"""
    if isinstance(val, tuple) and len(val) == 2 and isinstance(val[1], dict):
        return [val[0], None]          # key=None: the (task_name, task_env) pair
    if isinstance(val, list) and val and val[0] == 'tok':
        return [val[1], skey(val[2])]
    if isinstance(val, tuple) and val and val[0] == 'ret':
        return ['ret', val[1]]
    return repr(val)


class Hang(Exception):
    pass


def _hang(signum, frame):
    raise Hang()


def close_graph(n, edges, roots):
    """close_dependency_graph on n fresh tasks wired with add_dependency / soft_depends_on; 10 s of processor time"""
    import signal
    from valjean.cosette.pythontask import PythonTask
    from valjean.cosette.task import close_dependency_graph
    tasks = [PythonTask(f'g{i}', lambda: None) for i in range(n)]
    for src, dst, soft in edges:
        if soft:
            tasks[src].soft_depends_on.add(tasks[dst])
        else:
            tasks[src].add_dependency(tasks[dst])
    old = signal.signal(signal.SIGPROF, _hang)
    signal.setitimer(signal.ITIMER_PROF, 10)
    try:
        closed = close_dependency_graph([tasks[r] for r in roots])
    except Hang:
        return 'hang'
    finally:
        signal.setitimer(signal.ITIMER_PROF, 0)
        signal.signal(signal.SIGPROF, old)
    idx = {id(t): i for i, t in enumerate(tasks)}
    return {'tasks': sorted(idx.get(id(t), -1) for t in closed), 'nodup': len({id(t) for t in closed}) == len(closed)}


def run_impl(case, run):
    from valjean.config import Config
    from valjean.cosette.use import Use, UseRun
    from valjean.cosette.run import RunTaskFactory, RunTask
    from valjean.cosette.pythontask import PythonTask
    from valjean.cosette.task import close_dependency_graph, TaskStatus
    from valjean.cambronne.common import check_unique_task_names, collect_tasks
    saved = dict(Use._CACHE)
    Use._CACHE.clear()
    scratch = tempfile.mkdtemp(prefix='c15_')
    config = Config({'path': {'output-root': os.path.join(scratch, 'out')}})
    calls = []
    funcs = {}
    ids = {}            # id(task object) -> sequential id
    objs = []           # sequential id -> task object
    results = []        # per op: task object or None
    outs = []
    factories = []

    def known(task):
        if id(task) not in ids:
            ids[id(task)] = len(objs)
            objs.append(task)
        return ids[id(task)]

    def discover(task):
        """register the new task objects reachable from `task`, dependencies first"""
        new = []
        stack = [task]
        seen = set()
        while stack:
            cur = stack.pop()
            if id(cur) in ids or id(cur) in seen:
                continue
            seen.add(id(cur))
            new.append(cur)
            stack.extend(cur.depends_on)
            stack.extend(cur.soft_depends_on)

        def depth(tsk):
            return sum(1 for d in list(tsk.depends_on) + list(tsk.soft_depends_on) if id(d) in seen) and \
                1 + max(depth(d) for d in list(tsk.depends_on) + list(tsk.soft_depends_on) if id(d) in seen)
        for tsk in sorted(new, key=depth):
            known(tsk)
        return known(task)

    def get_func(spec):
        fid, name = spec[0], spec[1]
        if len(spec) > 2:
            from functools import partial, update_wrapper
            base, val = spec[2], spec[3]
            if ('base', base) not in funcs:
                funcs[('base', base)] = make_base(base, calls)
            wrapped = partial(funcs[('base', base)], tag=val)       # a new partial object every time
            update_wrapper(wrapped, funcs[('base', base)])
            return wrapped
        if fid not in funcs:
            funcs[fid] = make_func(fid, name, calls, kwd=bool(case.get('kwd')))
        return funcs[fid]

    def resolve(idx):
        return results[idx] if idx < len(results) else None

    try:
        for op in case['ops']:
            name = op[0]
            res = None
            try:
                if name == 'base':
                    res = PythonTask(op[1], lambda: None)
                    out = {'ok': discover(res)}
                elif name == 'use':
                    args = [(resolve(t), k) for t, k in op[2]]
                    kwargs = {kw: (resolve(t), k) for kw, t, k in op[3]}
                    if any(t is None for t, _ in args) or any(t is None for t, _ in kwargs.values()):
                        out = 'skip'
                    else:
                        use = Use(inj_args=args, inj_kwargs=kwargs, wrapped=get_func(op[1]), deps_type=op[4],
                                  serialize=op[5])
                        res = use.get_task()
                        out = {'ok': discover(res)}
                        if len(op) > 6 and op[6]:
                            # the wrapper is decorated further (stacked @using), then used again itself: it must still
                            # stand for its own request
                            for extra in op[6]:
                                tsk = resolve(extra[1])
                                if tsk is not None:
                                    Use.from_func(func=use, task=tsk, key=extra[2], kwarg=extra[0])
                            again = use.get_task()
                            if again is not res:
                                out['again'] = discover(again)
                elif name == 'factory':
                    fkw = dict(op[2])
                    if len(op) > 3:
                        fkw['deps'] = [resolve(t) for t in op[3][0]]
                        fkw['soft_deps'] = [resolve(t) for t in op[3][1]]
                    factories.append(RunTaskFactory.from_executable(
                        '/bin/sh', name=op[1], default_args=['-c', 'echo "$VJ" "$@"', 'sh', '{food}', '{side}'],
                        **fkw))
                    out = len(factories) - 1
                elif name == 'copy':
                    factories.append(factories[op[1]].copy())
                    out = len(factories) - 1
                elif name in ('make', 'userun'):
                    o = 2 if name == 'make' else 3
                    deps = [resolve(t) for t in op[o + 4]]
                    soft = [resolve(t) for t in op[o + 5]]
                    if any(t is None for t in deps + soft):
                        out = 'skip'
                    else:
                        kwargs = dict(name=op[o], extra_args=list(op[o + 1]), deps=deps, soft_deps=soft, **dict(op[o + 2]))
                        if op[o + 3]:
                            kwargs['subprocess_args'] = {'env': dict(op[o + 3])}
                        if name == 'make':
                            res = factories[op[1]].make(**kwargs)
                        else:
                            use_run = UseRun.from_factory(factories[op[1]])
                            for spec in op[2]:
                                use_run = use_run.map(get_func(spec))
                            deco = use_run(**kwargs)
                            probe = deco(make_func(-1, 'probe', []))
                            res = probe.inj_args[-1][0]
                        if len(op) > o + 6 and op[o + 6]:
                            # the caller goes on using its own containers for the next request
                            kwargs['extra_args'].append('late')
                            if objs:
                                kwargs['deps'].append(objs[0])
                                kwargs['soft_deps'].append(objs[-1])
                            if 'subprocess_args' in kwargs:
                                kwargs['subprocess_args']['env'] = {'VJ': 'late'}
                        out = {'ok': discover(res)}
                elif name == 'close':
                    tasks = [resolve(t) for t in op[1]]
                    tasks = [t for t in tasks if t is not None]
                    # through the real entry point: a job file whose job() returns these tasks
                    import sys as _sys
                    import types as _types
                    registry = _types.ModuleType('c15_registry')
                    registry.TASKS = tasks
                    _sys.modules['c15_registry'] = registry
                    _JOBS[0] += 1
                    job_file = os.path.join(scratch, f'c15job{_JOBS[0]}.py')
                    with open(job_file, 'w', encoding='utf-8') as fobj:
                        fobj.write('import sys\n\ndef job():\n    return list(sys.modules["c15_registry"].TASKS)\n')
                    closed = close_dependency_graph(tasks)
                    for tsk in closed:
                        known(tsk)
                    try:
                        collected = collect_tasks(job_file, [], {})
                        unique = True
                        if sorted(map(id, collected)) != sorted(map(id, closed)):
                            unique = 'collect_tasks and close_dependency_graph disagree'
                    except ValueError:
                        unique = False
                    out = {'tasks': sorted(ids[id(t)] for t in closed), 'nodup': len({id(t) for t in closed}) == len(closed),
                           'unique': unique}
                elif name == 'closegraph':
                    out = close_graph(op[1], op[2], op[3])
                else:
                    raise ValueError(name)
            except ValueError as exc:
                out = 'ValueError'
            except Exception as exc:  # pylint: disable=broad-except
                out = f'{type(exc).__name__}: {exc}'[:200]
            # task objects created by an op that ended with an exception are still in the caches
            def cached_tasks(cache):
                for val in list(cache.values()):
                    for item in (val if isinstance(val, list) else [val]):
                        yield item[0] if isinstance(item, tuple) else item
            for fac in factories:
                for tsk in cached_tasks(fac.cache):
                    known(tsk)
            for tsk in cached_tasks(Use._CACHE):
                known(tsk)
            results.append(res)
            outs.append(out)
        # behaviour of every task object
        env = {}
        for tsk in objs:
            env[tsk.name] = {'result': ['tok', tsk.name, 'result'], 'other': ['tok', tsk.name, 'other'],
                             0: ['tok', tsk.name, 0], '': ['tok', tsk.name, '']}
        behaviours = []
        for tid, tsk in enumerate(objs):
            deps = sorted(ids[id(d)] for d in tsk.depends_on if id(d) in ids)
            soft = sorted(ids[id(d)] for d in tsk.soft_depends_on if id(d) in ids)
            if isinstance(tsk, RunTask):
                try:
                    env_up, status = tsk.do(env=dict(env), config=config)
                    with open(env_up[tsk.name]['stdout'], encoding='utf-8') as fobj:
                        beh = {'run': True, 'stdout': fobj.read().strip(), 'deps': deps, 'soft': soft}
                except Exception as exc:  # pylint: disable=broad-except
                    beh = {'run': True, 'error': f'{type(exc).__name__}: {exc}'[:200]}
            elif tsk.func.__name__ == 'inject_from_env':
                del calls[:]
                try:
                    env_up, status = tsk.do(env=dict(env), config=config)
                    fid, args, kwargs = calls[-1]
                    beh = {'use': fid, 'args': [tok(a) for a in args],
                           'kwargs': sorted([kw] + tok(v) for kw, v in kwargs.items()),
                           'deps': deps, 'soft': soft, 'serialize': 'output_dir' in env_up[tsk.name]}
                except OSError as exc:
                    import errno
                    if exc.errno == errno.ENAMETOOLONG and calls:
                        # the generated name (it holds the names of the injected tasks, recursively) is longer than a file
                        # name may be: the function has run on its injected values, only the directory of the serialized
                        # result could not be made - which is attempted only when serialization was requested
                        fid, args, kwargs = calls[-1]
                        beh = {'use': fid, 'args': [tok(a) for a in args],
                               'kwargs': sorted([kw] + tok(v) for kw, v in kwargs.items()),
                               'deps': deps, 'soft': soft, 'serialize': True}
                    else:
                        beh = {'use': None, 'error': f'{type(exc).__name__}: {exc}'[:200]}
                except Exception as exc:  # pylint: disable=broad-except
                    beh = {'use': None, 'error': f'{type(exc).__name__}: {exc}'[:200]}
            else:
                beh = 'base'
            behaviours.append([tid, beh])
    finally:
        Use._CACHE.clear()
        Use._CACHE.update(saved)
        shutil.rmtree(scratch, ignore_errors=True)
    return {'outs': outs, 'tasks': behaviours, 'names': [t.name for t in objs]}


# ------------------------------------------------------------------------------------------------
# model
# ------------------------------------------------------------------------------------------------

def effective(case):
    """the same history with the dependencies given to a factory (inherited by its copies) written into every request made
    through it: `RunTask(deps=self.deps + deps, ...)`"""
    facdeps = []
    ops = []
    for op in case['ops']:
        if op[0] == 'factory':
            facdeps.append(op[3] if len(op) > 3 else [[], []])
            op = op[:3]
        elif op[0] == 'copy':
            facdeps.append(facdeps[op[1]])
        elif op[0] == 'use':
            op = list(op)
            op[2] = [[t, skey(k)] for t, k in op[2]]
            op[3] = [[kw, t, skey(k)] for kw, t, k in op[3]]
        elif op[0] in ('make', 'userun'):
            o = 2 if op[0] == 'make' else 3
            fdeps, fsoft = facdeps[op[1]]
            op = list(op)
            op[o + 4] = list(fdeps) + list(op[o + 4])
            op[o + 5] = list(fsoft) + list(op[o + 5])
        ops.append(op)
    return dict(case, ops=ops)


def run_model(case, driver, run):
    """op-index references are resolved with the model's own results"""
    case = effective(case)
    ops = []
    results = []
    # the driver works on task ids: resolve incrementally by asking the model prefix by prefix would be quadratic;
    # instead the driver is asked once with references resolved from the *implementation-independent* rule that the
    # result of op k is whatever the model returned for op k: done in two passes (first pass discovers ids).
    resolved = []
    for _ in range(2 + len(case['ops'])):
        ops = []
        ok = True
        for i, op in enumerate(case['ops']):
            def res(idx):
                return resolved[idx] if idx < len(resolved) and isinstance(resolved[idx], int) else None
            if op[0] == 'use':
                args = [[res(t), k] for t, k in op[2]]
                kwargs = [[kw, res(t), k] for kw, t, k in op[3]]
                if any(a[0] is None for a in args) or any(k[1] is None for k in kwargs):
                    ops.append(None)
                    continue
                ops.append(['use', op[1][:2], args, kwargs, op[4], op[5]])
            elif op[0] in ('make', 'userun'):
                o = 2 if op[0] == 'make' else 3
                deps = [res(t) for t in op[o + 4]]
                soft = [res(t) for t in op[o + 5]]
                if any(t is None for t in deps + soft):
                    ops.append(None)
                    continue
                mop = op[:o + 4] + [deps, soft]
                if op[0] == 'userun':
                    mop[2] = [f[:2] for f in op[2]]
                ops.append(mop)
            elif op[0] == 'close':
                ops.append(['close', [res(t) for t in op[1] if res(t) is not None]])
            elif op[0] == 'closegraph':
                ops.append(['closegraph', op[1], [[e[0], e[1]] for e in op[2]], op[3]])
            else:
                ops.append(op)
        sent = [o for o in ops if o is not None]
        rep = driver.ask('use', {'ops': sent})
        if '!driver-error' in rep:
            return rep
        outs = iter(rep['outs'])
        full = []
        for o in ops:
            full.append('skip' if o is None else next(outs))
        new_resolved = [(o['ok'] if isinstance(o, dict) and 'ok' in o else None) for o in full]
        if new_resolved == resolved:
            return {'outs': full, 'tasks': rep['tasks'], 'names': rep['names']}
        resolved = new_resolved
    return {'outs': full, 'tasks': rep['tasks'], 'names': rep['names']}


def expected_stdout(beh):
    kw = dict(beh['kwargs'])
    sub = dict(beh['sub'])
    return ' '.join([sub.get('VJ', ''), kw.get('food', ''), kw.get('side', '')] + beh['extra']).strip()


def compare(case, impl, model):
    from vcheck.runner import first_diff
    if '!driver-error' in model:
        return f"driver error: {model['!driver-error']}"
    mtasks = []
    for tid, beh in model['tasks']:
        if isinstance(beh, dict) and 'run' in beh:
            beh = {'run': True, 'stdout': expected_stdout(beh), 'deps': sorted(set(beh['deps'])), 'soft': sorted(set(beh['soft']))}
        elif isinstance(beh, dict) and 'use' in beh:
            beh = dict(beh, deps=sorted(beh['deps']), soft=sorted(beh['soft']),
                       kwargs=sorted(beh['kwargs']))
        mtasks.append([tid, beh])
    itasks = []
    for tid, beh in impl['tasks']:
        if isinstance(beh, dict) and 'use' in beh and 'args' in beh:
            beh = dict(beh, args=[[a[0], a[1]] if a[0] != 'ret' else a for a in beh['args']])
        itasks.append([tid, beh])
    # task names generated from det_hash differ (sha256 vs the model's symbolic hash): names are compared through
    # the id of the first task carrying them
    def canon(tasks, names):
        first = {}
        for tid, name in enumerate(names):
            first.setdefault(name, f'n{tid}')
        out = []
        for tid, beh in tasks:
            if isinstance(beh, dict) and 'args' in beh:
                beh = dict(beh, args=[[first.get(a[0], a[0]), a[1]] for a in beh['args']],
                           kwargs=[[k[0], first.get(k[1], k[1]), k[2]] for k in beh['kwargs']])
            out.append([tid, beh])
        return out, [first[n] for n in names]
    itasks, inames = canon(itasks, impl['names'])
    mtasks, mnames = canon(mtasks, model['names'])
    return first_diff({'outs': impl['outs'], 'tasks': itasks, 'names': inames},
                      {'outs': model['outs'], 'tasks': mtasks, 'names': mnames})


# ------------------------------------------------------------------------------------------------
# oracle
# ------------------------------------------------------------------------------------------------

def oracle(case, impl, run):
    case = effective(case)
    fails = []
    outs = impl['outs']
    reqs = {}          # op index -> canonical request (with references resolved to task ids)
    raw_userun = {}    # op index -> the UseRun/make request as written
    use_ids = {}
    nontriv = False

    def rid(idx):
        o = outs[idx] if idx < len(outs) else None
        return o['ok'] if isinstance(o, dict) and 'ok' in o else None
    fac_of = {}
    nfac = 0
    facs = {}
    for i, (op, out) in enumerate(zip(case['ops'], outs)):
        run.count('op:' + op[0])
        if op[0] == 'use' and len(op) > 6 and op[6]:
            run.count('use:decorated-then-reused')
        if isinstance(out, dict) and 'again' in out:
            fails.append(('task_runs_its_own_request',
                          f'op {i}: after other wrappers were derived from it, the same wrapper gives task {out["again"]} '
                          f'instead of task {out["ok"]}'))
        if isinstance(out, str) and out not in ('ValueError', 'skip', 'ok', 'hang'):
            fails.append(('no_unexpected_exception', f'op#{i} {op[0]}: {out}'))
            continue
        if out == 'ValueError':
            run.count('explicit_error')
            nontriv = True
        if op[0] == 'factory':
            facs[nfac] = ('F', nfac, op[1], tuple(map(tuple, op[2])))
            nfac += 1
        elif op[0] == 'copy':
            facs[nfac] = ('F', nfac) + facs[op[1]][2:]
            nfac += 1
        elif op[0] == 'use' and out != 'skip':
            reqs[i] = ('use', op[1][0], tuple((rid(t), k) for t, k in op[2]),
                       tuple(sorted((kw, rid(t), k) for kw, t, k in op[3])), op[4], op[5])
        elif op[0] in ('make', 'userun') and out != 'skip':
            o = 2 if op[0] == 'make' else 3
            defaults = dict(facs[op[1]][3])
            defaults.update(dict(op[o + 2]))
            posts = tuple(f[0] for f in op[2]) if op[0] == 'userun' else ()
            kind = 'make' if not posts else 'userun'
            reqs[i] = (kind, op[1], posts, op[o], tuple(op[o + 1]),
                       tuple(sorted(defaults.items())), tuple(map(tuple, op[o + 3])),
                       tuple(rid(t) for t in op[o + 4]), tuple(rid(t) for t in op[o + 5]))
            raw_userun[i] = reqs[i]
            if posts and isinstance(out, dict):
                # the task returned by UseRun(...)(**kw) is the Use task of the last post-processing function,
                # injecting the result of the previous task of the chain
                behs = dict((tid, b) for tid, b in impl['tasks'])
                prev = behs[out['ok']].get('deps', [None]) if isinstance(behs[out['ok']], dict) else [None]
                if len(prev) == 1 and prev[0] is not None:
                    reqs[i] = ('use', posts[-1], ((prev[0], 'result'),), (), 'hard', False)
    # one-to-one: same object => same request; same request (both answered) => same object, no error
    by_task = {}
    by_req = {}
    for i, req in reqs.items():
        out = outs[i]
        tid = out['ok'] if isinstance(out, dict) else None
        if tid is not None:
            if tid in by_task and by_task[tid][1] != req:
                fails.append(('different_request_not_shared',
                              f'ops #{by_task[tid][0]} and #{i} got the same task {tid} ({impl["names"][tid]!r}) for different '
                              f'requests {by_task[tid][1]} / {req}'[:500]))
            by_task.setdefault(tid, (i, req))
        strict = req
        if strict in by_req:
            nontriv = True
            run.count('repeated_request')
            first = outs[by_req[strict]]
            if isinstance(first, dict) and first != out:
                fails.append(('same_request_same_task', f'identical requests at ops #{by_req[strict]} and #{i} answered {first} / {out}'))
        by_req.setdefault(strict, i)
    seen_raw = {}
    for i, req in raw_userun.items():
        if req in seen_raw and isinstance(outs[seen_raw[req]], dict) and outs[seen_raw[req]] != outs[i]:
            fails.append(('same_request_same_task', f'identical factory requests at ops #{seen_raw[req]} and #{i} answered '
                          f'{outs[seen_raw[req]]} / {outs[i]}'))
        seen_raw.setdefault(req, i)
    # behaviour of the returned task = its own request
    beh = dict((tid, b) for tid, b in impl['tasks'])
    names = impl['names']
    for i, req in reqs.items():
        out = outs[i]
        if not isinstance(out, dict):
            continue
        b = beh[out['ok']]
        if not isinstance(b, dict) or 'error' in b:
            fails.append(('task_runs_its_own_request', f'op#{i}: task could not be executed: {b}'[:300]))
            continue
        if req[0] == 'use':
            exp_args = [[names[t], k] for t, k in reversed(req[2])]
            exp_kw = sorted([kw, names[t], k] for kw, t, k in req[3])
            inj = sorted({t for t, _ in req[2]} | {t for _, t, _ in req[3]})
            got = dict(b, args=[[a[0], a[1]] for a in b['args']])
            exp = {'use': req[1], 'args': exp_args, 'kwargs': exp_kw, 'deps': inj if req[4] == 'hard' else [],
                   'soft': inj if req[4] == 'soft' else [], 'serialize': req[5]}
            if got != exp:
                fails.append(('task_runs_its_own_request', f'op#{i}: task does {got}, request was {exp}'[:500]))
        elif req[0] == 'make':
            kw = dict(req[5])
            stdout = ' '.join([dict(req[6]).get('VJ', ''), kw.get('food', ''), kw.get('side', '')] + list(req[4])).strip()
            exp = {'run': True, 'stdout': stdout, 'deps': sorted(set(req[7])), 'soft': sorted(set(req[8]))}
            if b != exp:
                fails.append(('task_runs_its_own_request', f'op#{i}: task does {b}, request was {exp}'[:500]))
    # collecting the tasks of a job
    for i, (op, out) in enumerate(zip(case['ops'], outs)):
        if op[0] == 'closegraph':
            reach = set(op[3])
            stack = list(op[3])
            while stack:
                cur = stack.pop()
                for src, dst, _ in op[2]:
                    if src == cur and dst not in reach:
                        reach.add(dst)
                        stack.append(dst)
            cyclic = any(src in _reach_from(op[2], dst) for src, dst, _ in op[2])
            run.count('closegraph:cyclic' if cyclic else 'closegraph:acyclic')
            nontriv = nontriv or cyclic
            if out == 'hang':
                fails.append(('close_complete', f'close_dependency_graph did not return (10 s of processor time) on {op[1:]}'))
            elif not isinstance(out, dict) or out['tasks'] != sorted(reach) or not out['nodup']:
                fails.append(('close_complete_nodup', f'close_dependency_graph gave {out}, expected {sorted(reach)} on {op[1:]}'))
            continue
        if op[0] != 'close' or not isinstance(out, dict):
            continue
        roots = {rid(t) for t in op[1] if rid(t) is not None}
        reach = set(roots)
        stack = list(roots)
        while stack:
            cur = stack.pop()
            b = beh.get(cur)
            for d in ((b.get('deps', []) + b.get('soft', [])) if isinstance(b, dict) else []):
                if d not in reach:
                    reach.add(d)
                    stack.append(d)
        if out['tasks'] != sorted(reach) or not out['nodup']:
            fails.append(('close_complete_nodup', f"close_dependency_graph gave {out['tasks']} (nodup={out['nodup']}), expected {sorted(reach)}"))
        exp_unique = len({names[t] for t in reach}) == len(reach)
        if out['unique'] != exp_unique:
            fails.append(('duplicate_names_rejected', f"check_unique_task_names accepted={out['unique']} for names {[names[t] for t in sorted(reach)]}"))
    impl['_nontrivial'] = nontriv
    return fails[:6]


def _reach_from(edges, start):
    seen = {start}
    stack = [start]
    while stack:
        cur = stack.pop()
        for src, dst, _ in edges:
            if src == cur and dst not in seen:
                seen.add(dst)
                stack.append(dst)
    return seen


def is_generated(beh, tid, key):
    """does task `tid`, when used as an injected task under `key`, come from the prepared environment?  Always: the
    probes never run the dependencies, so injected values are always the prepared tokens."""
    return False


def nontrivial(case, impl):
    return case if impl.get('_nontrivial') else None


def signature(case, clause, detail):
    return clause
