"""C14 — persisted environments survive crashes: a bad file means not-done, not an abort
(valjean/cosette/env.py from_file/to_file/merge_done_tasks, valjean/cambronne/common.py read_env/write_env)."""
import os
import pickle
import shutil
import tempfile

PROPERTY = 'C14'
THEOREMS = ['EnvP.simpleCodec_good', 'EnvP.read_total', 'EnvP.roundtrip', 'EnvP.never_spurious_done',
            'EnvP.history_inv', 'EnvP.bad_file_not_done', 'EnvP.c14_pinned_refuted']
BUDGET = {'quick': 250, 'thorough': 5000}
TIME_LIMIT = {'quick': 50, 'thorough': 600}
RULE = ('histories (1-10 steps) of write_env / write_env killed while writing the n-th file after k bytes / delete a '
        'file / replace a file by unreadable content / read_env over <= 6 tasks with all statuses, payloads from a '
        'pool of picklable objects (nested dicts, numpy arrays, tuples, None), two entries in three with the clocks of an earlier run, output_dir own / none / shared; every '
        'written file is additionally cut at EVERY byte and read back; non-trivial = at least one crash, deletion or '
        'corruption followed by a read that finds >= 1 DONE entry; distinct = case hash')
CORRESPONDS = ('Model/EnvPersist.lean (writeEnv, writeEnvCrash, fromFile, mergeDone, readEnv with simpleCodec) vs '
               'valjean.cambronne.common.write_env/read_env + Env.from_file/to_file/merge_done_tasks with pickle')
TRUSTED = ['harness/props/c14.py (generator, crash simulation by writing a prefix of the pickle, oracle)',
           'vjdriver (compiled Model/EnvPersist.lean)',
           'pickle as a prefix-free codec: checked at every byte of every file written in this run']
ASSUMPTIONS = ['a process killed while writing leaves a prefix of the bytes it would have written (POSIX open("wb") + write; '
               'no torn or reordered blocks)',
               'unreadable content is drawn from the classes pickle documents (EOFError, UnpicklingError, ValueError, '
               'AttributeError, ImportError, IndexError) or is a valid pickle of a non-Env object',
               'tasks read back are those whose output_dir is root/<name> (what read_env looks up)']

FILENAME = 'valjean.env'
NTASKS = 6
GARBAGE = [b'garbage', b'\x80\x04\x95\x10\x00\x00\x00\x00\x00\x00\x00\x8c\x03abc', b'cnomodule_xyz\nthing\n.',
           b'cos\nno_such_attribute_xyz\n.', None, None, None, b'\x80\x05K', b'I12\n', b'\x80\x04]h\x05.', b'X\xff\xff\xff\x7fabc.']
_POOL = []


def payload_pool():
    if not _POOL:
        import numpy as np
        _POOL.extend([None, 1, 'text', {'a': [1, 2, {'b': (3, None)}]}, np.arange(6.).reshape(2, 3),
                      {'res': np.array([1.5, float('nan')]), 'n': 3}, (1, 'two', 3.0), [],
                      {'deep': {'deeper': {'deepest': list(range(20))}}}, b'bytes\x00\xff'])
        # payloads that are not trees: a child that knows its parent, a list that holds itself, one object at two places
        parent = {'name': 'root', 'children': []}
        parent['children'].append({'name': 'leaf', 'parent': parent})
        loop = [1, 2]
        loop.append(loop)
        shared = [1.0, 2.0]
        _POOL.extend([parent, loop, {'x': shared, 'y': shared}])
    return _POOL


def garbage_bytes(i):
    g = GARBAGE[i % len(GARBAGE)]
    if g is None:
        return pickle.dumps([{'a': 1}, [1, 2], 3][i % 3])
    return g


def classify(content):
    try:
        obj = pickle.loads(content)
    except (EOFError,):
        return 'EOFError'
    except pickle.UnpicklingError:
        return 'UnpicklingError'
    except ValueError:
        return 'ValueError'
    except AttributeError:
        return 'AttributeError'
    except ImportError:
        return 'ImportError'
    except IndexError:
        return 'IndexError'
    except Exception:  # pylint: disable=broad-except
        return 'other'
    from valjean.cosette.env import Env
    return 'env' if isinstance(obj, Env) else 'notenv'


def gen_env(rng):
    env = []
    for t in rng.sample(range(NTASKS), rng.randrange(1, NTASKS + 1)):
        r = rng.random()
        outdir = t if r < 0.8 else (None if r < 0.92 else rng.randrange(NTASKS))
        status = 3 if rng.random() < 0.6 else rng.randrange(1, 6)
        env.append([t, status, outdir, rng.randrange(len(payload_pool()))])
    return env


def gen(rng, tier, run):
    ops = []
    for _ in range(rng.randrange(1, 11)):
        r = rng.random()
        if r < 0.3:
            ops.append(['write', gen_env(rng)])
        elif r < 0.5:
            env = gen_env(rng)
            ops.append(['crash', env, rng.randrange(len(env)), rng.choice(['empty', 'partial', 'partial', 'most']),
                        rng.random()])
        elif r < 0.57:
            ops.append(['delete', rng.randrange(NTASKS)])
        elif r < 0.62:
            # the environment file cannot even be opened (OSError other than ENOENT), for reading or writing
            ops.append(['block', rng.randrange(NTASKS), rng.choice(['notdir', 'isdir', 'loop'])])
        elif r < 0.64:
            ops.append(['unblock', rng.randrange(NTASKS)])
        elif r < 0.7:
            gi = rng.randrange(100)
            if classify(garbage_bytes(gi)) not in ('other', 'env'):
                ops.append(['garbage', rng.randrange(NTASKS), gi])
        else:
            ops.append(['read', rng.sample(range(NTASKS + 1), rng.randrange(0, NTASKS + 2))])
    ops.append(['read', list(range(NTASKS))])
    case = {'ops': ops}
    r = rng.random()
    if r < 0.2:
        case['root'] = 'brackets'
    elif r < 0.35:
        case['hidden'] = True
    r = rng.random()
    if r < 0.15:
        case['status'] = rng.choice(['int', 'npint'])
    if rng.random() < 0.12 and 'hidden' not in case:
        case['names'] = 'attrs'
    return case


def shrink(case):
    ops = case['ops']
    for key in ('root', 'hidden', 'status', 'names'):
        if key in case:
            yield {k: v for k, v in case.items() if k != key}
    for i in range(len(ops) - 1):
        yield dict(case, ops=ops[:i] + ops[i + 1:])
    for i, op in enumerate(ops):
        if op[0] in ('write', 'crash') and len(op[1]) > 1:
            for j in range(len(op[1])):
                if op[0] == 'crash' and j <= op[2]:
                    continue
                new = list(op)
                new[1] = op[1][:j] + op[1][j + 1:]
                yield dict(case, ops=ops[:i] + [new] + ops[i + 1:])


_PFX = {}


ATTR_NAMES = {0: 'dictionary', 1: 'lock', 2: 'status', 3: '__dict__'}     # names of attributes of Env / keys of entries


def tn(t):
    """directory / task name of task number t (hidden names for some cases, names that are also attribute names)"""
    if _PFX.get('names') == 'attrs' and t in ATTR_NAMES:
        return ATTR_NAMES[t]
    return _PFX.get('p', '') + f't{t}'


def untn(name):
    """task number of a task / directory name"""
    for t, nm in ATTR_NAMES.items():
        if name == nm:
            return t
    return int(name.lstrip('.')[1:])


def build_env(entries, root):
    from valjean.cosette.env import Env
    from valjean.cosette.task import TaskStatus
    dct = {}
    for t, status, outdir, p in entries:
        sub = {'status': TaskStatus(status), 'result': payload_pool()[p], 'p': p}
        # a status is an IntEnum: the plain value (as stored by code that builds an environment by hand, or by numpy) is
        # the same status for every accessor of Env
        if _PFX.get('status') == 'int':
            sub['status'] = int(status)
        elif _PFX.get('status') == 'npint':
            import numpy as np
            sub['status'] = np.int64(status)
        if (t + p) % 3:      # the clocks the scheduler records (times of an earlier run: older than any file written now)
            sub['start_clock'] = 1.6e9 + 10 * t
            sub['end_clock'] = 1.6e9 + 10 * t + 1 + p
        if outdir is not None:
            sub['output_dir'] = os.path.join(root, tn(outdir))
        dct[tn(t)] = sub
    return Env(dct)


def dump_env(env, root):
    out = []
    for name, sub in env.items():
        outdir = sub.get('output_dir')
        out.append([untn(name), int(sub['status']) if hasattr(sub['status'], 'value') else int(sub['status']),
                    None if outdir is None else untn(os.path.basename(outdir)), sub.get('p')])
    return sorted(out)


def status_code(sub):
    return int(sub['status'])


def run_impl(case, run):
    from valjean.cambronne.common import read_env, write_env
    from valjean.cosette.env import Env
    # an output root whose name holds glob characters, task names that start with a dot: legal names
    _PFX['p'] = '.' if case.get('hidden') else ''
    _PFX['status'] = case.get('status')
    _PFX['names'] = case.get('names')
    root = tempfile.mkdtemp(prefix='c14_[1]x_' if case.get('root') == 'brackets' else 'c14_')
    outs = []
    sweep = {'files': 0, 'cuts': 0, 'bad': []}
    try:
        for t in range(NTASKS + 1):
            os.makedirs(os.path.join(root, tn(t)))
        for op in case['ops']:
            name = op[0]
            if name == 'write':
                try:
                    write_env(build_env(op[1], root), filename=FILENAME, fmt='pickle')
                    outs.append('ok')
                except Exception as exc:  # pylint: disable=broad-except
                    outs.append({'write_raised': f'{type(exc).__name__}: {exc}'[:200]})
            elif name == 'crash':
                entries, n, cut = op[1], op[2], op[3]
                try:
                    write_env(build_env(entries[:n], root), filename=FILENAME, fmt='pickle')
                except Exception as exc:  # pylint: disable=broad-except
                    outs.append({'write_raised': f'{type(exc).__name__}: {exc}'[:200]})
                    continue
                t, _, outdir, _ = entries[n]
                if outdir is not None:
                    full = pickle.dumps(Env({tn(t): build_env([entries[n]], root)[tn(t)]}))
                    k = 0 if cut == 'empty' else (len(full) - 1 if cut == 'most' else 1 + int(op[4] * (len(full) - 2)))
                    path = os.path.join(root, tn(outdir), FILENAME)
                    try:
                        with open(path, 'wb') as fobj:
                            fobj.write(full[:k])
                    except OSError:
                        pass    # blocked directory: the real to_file logs the error and goes on
                outs.append('ok')
            elif name == 'delete':
                path = os.path.join(root, tn(op[1]), FILENAME)
                if os.path.isfile(path) and not os.path.islink(path):
                    os.remove(path)
                outs.append('ok')
            elif name in ('block', 'unblock'):
                tdir = os.path.join(root, tn(op[1]))
                if os.path.isdir(tdir) and not os.path.islink(tdir):
                    shutil.rmtree(tdir)
                elif os.path.lexists(tdir):
                    os.remove(tdir)
                if name == 'unblock' or op[2] != 'notdir':
                    os.makedirs(tdir)
                if name == 'block':
                    if op[2] == 'notdir':       # a regular file where the task directory should be: ENOTDIR
                        with open(tdir, 'w', encoding='utf-8') as fobj:
                            fobj.write('x')
                    elif op[2] == 'isdir':      # the environment file is a directory: EISDIR
                        os.makedirs(os.path.join(tdir, FILENAME))
                    else:                       # a symbolic link pointing to itself: ELOOP
                        os.symlink(FILENAME, os.path.join(tdir, FILENAME))
                outs.append('ok')
            elif name == 'garbage':
                if not os.path.isdir(os.path.join(root, tn(op[1]))) or os.path.lexists(os.path.join(root, tn(op[1]), FILENAME)) \
                        and not os.path.isfile(os.path.join(root, tn(op[1]), FILENAME)):
                    outs.append('ok')
                    continue
                with open(os.path.join(root, tn(op[1]), FILENAME), 'wb') as fobj:
                    fobj.write(garbage_bytes(op[2]))
                outs.append('ok')
            elif name == 'read':
                try:
                    env = read_env(root=root, names=[tn(t) for t in op[1]], filename=FILENAME, fmt='pickle')
                    outs.append({'ok': [[untn(k), int(sub['status']),
                                         None if 'output_dir' not in sub else untn(os.path.basename(sub['output_dir'])),
                                         sub.get('p')] for k, sub in sorted(env.items(), key=lambda kv: untn(kv[0]))]})
                except Exception as exc:  # pylint: disable=broad-except
                    outs.append({'raise': next((n for n, c in (('EOFError', EOFError), ('UnpicklingError', pickle.UnpicklingError),
                                                               ('ValueError', ValueError), ('AttributeError', AttributeError),
                                                               ('ImportError', ImportError), ('IndexError', IndexError))
                                                if isinstance(exc, c)), 'other'), 'type': type(exc).__name__})
        # every-byte truncation sweep of one file written by this history (all of them in the thorough tier)
        files = [os.path.join(root, tn(t), FILENAME) for t in range(NTASKS)]
        files = [f for f in files if os.path.isfile(f) and classify(open(f, 'rb').read()) == 'env']
        if run.tier != 'thorough':
            files = files[:1]
        for path in files:
            t = untn(os.path.basename(os.path.dirname(path)))
            full = open(path, 'rb').read()
            sweep['files'] += 1
            for k in range(len(full)):
                sweep['cuts'] += 1
                with open(path, 'wb') as fobj:
                    fobj.write(full[:k])
                cls = classify(full[:k])
                try:
                    env = read_env(root=root, names=[tn(t)], filename=FILENAME, fmt='pickle')
                    got = 'empty' if len(env) == 0 else f'entries:{sorted(env)}'
                except Exception as exc:  # pylint: disable=broad-except
                    got = f'raise:{type(exc).__name__}'
                if got != 'empty' or cls not in ('EOFError', 'UnpicklingError'):
                    sweep['bad'].append([t, k, len(full), cls, got])
            with open(path, 'wb') as fobj:
                fobj.write(full)
    finally:
        shutil.rmtree(root, ignore_errors=True)
    return {'outs': outs, 'sweep': sweep}


def drop_blocked(entries, blocked):
    return [[t, st, (None if d in blocked else d), p] for t, st, d, p in entries]


def to_model_ops(case):
    """The model has no notion of 'open() raises OSError': a blocked directory is modelled as an absent file, and
    writes into it are dropped here (Env.to_file logs the OSError and goes on), as are deletions/corruptions of it."""
    ops = []
    blocked = set()
    for op in case['ops']:
        if op[0] == 'block':
            blocked.add(op[1])
            ops.append(['delete', op[1]])
        elif op[0] == 'unblock':
            blocked.discard(op[1])
            ops.append(['delete', op[1]])
        elif op[0] == 'write':
            ops.append(['write', drop_blocked(op[1], blocked)])
        elif op[0] in ('delete', 'garbage') and op[1] in blocked:
            ops.append(['delete', op[1]])
        elif op[0] == 'crash':
            ops.append(['crash', drop_blocked(op[1], blocked), op[2], op[3]])
        elif False:
            ops.append(['crash', op[1], op[2], op[3]])
        elif op[0] == 'garbage':
            ops.append(['garbage', op[1], classify(garbage_bytes(op[2]))])
        else:
            ops.append(op)
    return ops


def run_model(case, driver, run):
    return driver.ask('envp', {'ops': to_model_ops(case)})


def compare(case, impl, model):
    from vcheck.runner import first_diff
    if isinstance(model, dict):
        return f'driver error {model}'
    outs = [{'raise': o['raise']} if isinstance(o, dict) and 'raise' in o else o for o in impl['outs']]
    return first_diff(outs, model)


def oracle(case, impl, run):
    fails = []
    # ghost state: per directory: ('absent',) | ('complete', t, status, outdir, p) | ('bad',)
    ghost = {}
    blocked = set()
    nontriv = False
    damaged = False
    for i, (op, out) in enumerate(zip(case['ops'], impl['outs'])):
        run.count('op:' + op[0])
        name = op[0]
        if isinstance(out, dict) and 'write_raised' in out:
            fails.append(('write_never_aborts', f"op#{i} {name}: writing the environment files raised {out['write_raised']} "
                          '(a file that cannot be written is logged and skipped, the other tasks are written)'))
            break
        if name in ('write', 'crash'):
            entries = op[1] if name == 'write' else op[1][:op[2]]
            for t, status, outdir, p in entries:
                if outdir is not None and outdir not in blocked:
                    ghost[outdir] = ('complete', t, status, outdir, p)
            if name == 'crash':
                damaged = True
                t, status, outdir, p = op[1][op[2]]
                run.count('cut:' + op[3])
                if outdir is not None and outdir not in blocked:
                    ghost[outdir] = ('bad',)
        elif name in ('block', 'unblock'):
            damaged = True
            ghost.pop(op[1], None)
            (blocked.add if name == 'block' else blocked.discard)(op[1])
            if name == 'block':
                run.count('block:' + op[2])
        elif name == 'delete':
            damaged = True
            if op[1] not in blocked:
                ghost.pop(op[1], None)
        elif name == 'garbage':
            damaged = True
            run.count('garbage:' + classify(garbage_bytes(op[2])))
            if op[1] not in blocked:
                ghost[op[1]] = ('bad',)
        elif name == 'read':
            if 'raise' in out:
                fails.append(('read_never_raises', f"op#{i} read_env raised {out.get('type')}"))
                continue
            exp = {}
            for t in op[1]:
                st = ghost.get(t)
                if st and st[0] == 'complete' and st[2] == 3:
                    exp[st[1]] = [st[1], st[2], st[3], st[4]]
            got = {e[0]: e for e in out['ok']}
            for t, e in got.items():
                if e[1] != 3:
                    fails.append(('never_spurious_done', f'op#{i}: non-DONE entry returned {e}'))
                elif t not in exp:
                    fails.append(('never_spurious_done', f'op#{i}: entry {e} is not the last completely written DONE entry'))
                elif exp[t] != e:
                    fails.append(('roundtrip', f'op#{i}: {e} != written {exp[t]}'))
            for t, e in exp.items():
                if t not in got:
                    fails.append(('roundtrip', f'op#{i}: written DONE entry {e} not returned'))
            if damaged and exp:
                nontriv = True
    sw = impl['sweep']
    run.count('sweep_files', sw['files'])
    run.count('sweep_cuts', sw['cuts'])
    for bad in sw['bad'][:3]:
        t, k, n, cls, got = bad
        if got.startswith('raise'):
            fails.append(('bad_file_not_done', f'file of t{t} cut at byte {k}/{n}: read_env {got} (pickle: {cls})'))
        elif got != 'empty':
            fails.append(('never_spurious_done', f'file of t{t} cut at byte {k}/{n}: read_env returned {got}'))
        else:
            fails.append(('prefix_free_codec', f'file of t{t} cut at byte {k}/{n}: pickle.loads gives {cls}'))
    impl['_nontrivial'] = nontriv
    return fails[:6]


def nontrivial(case, impl):
    return case if impl.get('_nontrivial') else None


def signature(case, clause, detail):
    return clause
