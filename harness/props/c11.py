"""C11 — a truncated Tripoli-4 listing gives a parser error or the last complete edition."""
import glob
import os
import signal
import tempfile

PROPERTY = 'C11'
THEOREMS = ['T4Scan.scanLines_append', 'T4Scan.step_history', 'T4Scan.prefix_history', 'T4Scan.cut_line_at_most_one',
            'T4Scan.collres_of_history', 'T4Scan.repaired_never_crashes', 'T4Scan.c11_pinned_refuted']
BUDGET = {'quick': 450, 'thorough': 60000}
TIME_LIMIT = {'quick': 58, 'thorough': 1500}
RULE = ('prefixes of the shipped Tripoli-4 listings (tests/eponine/tripoli4/data and doc/src/examples, up to 165 kB) and of '
        'synthetic variants (editions duplicated, key lines moved): cut at a line boundary (30%), at every kind of byte inside '
        'a line the scanner interprets (40%: BATCH, number of tasks is, PACKET_LENGTH, initialization time, batch number :, '
        'Edition after batch number, number of batches used, simulation / exploitation / elapsed time, RESULTS ARE GIVEN), '
        'or anywhere (30%), 20% of all cuts moved inside an end-flag (time) line; after a failed parse a complete listing '
        'is parsed in another thread of the process (must return); thorough: every byte offset of the listings below 15 kB; each prefix is opened in the one '
        'long-lived checker process, which has parsed other listings before, under a limit of 20 s of processor time per call; non-trivial = a prefix '
        'on which the scan succeeds or that ends inside an interpreted line; distinct = (file, offset)')
CORRESPONDS = ('Model/T4Scan.lean (Scanner._get_collres line by line, BatchResultScanner, PhEmEp / homogenised-material '
               'side outputs, _add_time, Parser.__init__ outcome) vs valjean.eponine.tripoli4.scan.Scanner / parse.Parser on '
               'the same bytes: outcome class, edition keys, block length and checksum, times, flags and counters')
TRUSTED = ['harness/props/c11.py (prefix generator, deep comparison of parse results)', 'vjdriver (compiled Model/T4Scan.lean)',
           'the pyparsing grammar and the builders behind parse_from_number are exercised, not modelled: that a complete block '
           'parses without another exception is covered by the correspondence only']
ASSUMPTIONS = ['"results of that edition" = what parse_from_number returns for it (ParseResult.pres and the datasets built from it); the '
               'run-level variables collected by the scanner (warning counts, normal end, elapsed time printed after the '
               'edition) legitimately differ between a prefix and the complete listing',
               'lines end with "\\n" (a lone "\\r" is not treated as an end of line by the model)',
               'int() is modelled for an optional sign followed by ASCII digits']

KEYS = [b'BATCH', b'number of tasks is', b'PACKET_LENGTH', b'initialization time', b' batch number :', b'Edition after batch number',
        b'number of batches used', b'simulation time', b'exploitation time', b'elapsed time', b'RESULTS ARE GIVEN',
        b'NORMAL COMPLETION', b'PARTIAL EDITION']
_FILES = {}
_COMPLETE = {}


def repo():
    return os.environ.get('VERIF_REPO', '/repo')


def listing_files():
    if not _FILES:
        root = repo()
        paths = sorted(glob.glob(os.path.join(root, 'tests/eponine/tripoli4/data/*.res*'))
                       + glob.glob(os.path.join(root, 'doc/src/examples/notebooks/*/*.res*')))
        for path in paths:
            data = open(path, 'rb').read()
            if b'RESULTS ARE GIVEN' not in data and len(data) > 20000:
                continue
            key_spans = []
            pos = 0
            for line in data.split(b'\n'):
                if any(k in line for k in KEYS):
                    key_spans.append((pos, pos + len(line) + 1))
                pos += len(line) + 1
            _FILES[os.path.relpath(path, root)] = {'data': data, 'spans': key_spans,
                                                   'lines': [i + 1 for i, c in enumerate(data) if c == 10]}
    return _FILES


FATAL_BLOCK = (b'\n\n FATAL ERROR\n method name : T4_read_data\n error message : there are no source defined for any particle '
               b'type declared \\\n in the SIMULATION block\n\n\n')


def synth(data, kind):
    """synthetic variants of a listing: the last edition repeated / the first edition dropped"""
    if kind == 'fatal':
        # a job that stops before any result: the head of the listing followed by Tripoli-4's FATAL ERROR block
        head = data.find(b' BATCH ')
        head = data.find(b'RESULTS ARE GIVEN') if head < 0 else head
        head = data[:max(head, 0)] if head >= 0 else data[:len(data) // 3]
        head = head[:head.rfind(b'\n') + 1]
        return head + FATAL_BLOCK
    start = data.find(b'RESULTS ARE GIVEN')
    if start < 0:
        return data
    start = data.rfind(b'\n', 0, start) + 1
    end = -1
    for flag in (b'simulation time', b'exploitation time'):
        pos = data.find(flag, start)
        if pos >= 0:
            end = data.find(b'\n', pos) + 1
            break
    if end <= 0:
        return data
    block = data[start:end]
    if kind == 'trailing':
        # the time line printed once more after the last edition (as the real listings do at the end of the job)
        last = data.rfind(b'simulation time')
        if last < 0:
            return data
        eol = data.find(b'\n', last)
        return data[:eol + 1] + b'\n simulation time (s): 77\n' + data[eol + 1:]
    if kind == 'twice':
        return data[:end] + b' batch number : 777\n' + block.replace(b'Edition after batch number', b'Edition after batch number') + data[end:]
    return data


def gen(rng, tier, run):
    files = listing_files()
    names = sorted(files)
    small = [n for n in names if len(files[n]['data']) < 70000]
    name = rng.choice(small) if rng.random() < 0.9 else rng.choice(names)
    info = files[name]
    r = rng.random()
    if r < 0.3 and info['lines']:
        off = rng.choice(info['lines'])
    elif r < 0.7 and info['spans']:
        a, b = rng.choice(info['spans'])
        off = rng.randrange(a, b + 1)
    else:
        off = rng.randrange(0, len(info['data']) + 1)
    if rng.random() < 0.2:
        # inside an end-flag line: the scanner keeps the block as soon as it has seen the flag words, the grammar then meets
        # an unterminated last line
        flags = [(a, b) for a, b in info['spans']
                 if any(k in info['data'][a:b] for k in (b'simulation time', b'exploitation time', b'elapsed time'))]
        if flags:
            a, b = rng.choice(flags)
            off = rng.randrange(a, b + 1)
    if rng.random() < 0.18:
        # inside the number of a line the scanner takes numbers from (batch counts, task counts, times); listings of
        # parallel runs (other code paths of the scanner) half of the time
        para = [n for n in small if b'number of tasks' in files[n]['data'][:20000]]
        if para and rng.random() < 0.5:
            name = rng.choice(para)
            info = files[name]
        key = rng.choice([b'number of batches used', b'batch number', b'number of tasks', b'time (s)'])
        keyed = [(a, b) for a, b in info['spans'] if key in info['data'][a:b]]
        if keyed:
            a, b = rng.choice(keyed)
            pos = info['data'].find(key, a) + len(key)
            # right behind the key words (before / inside the first number) half of the time
            off = min(b, pos + rng.randrange(0, 5)) if rng.random() < 0.5 else rng.randrange(min(pos, b), b + 1)
        else:
            off = rng.randrange(0, len(info['data']) + 1)
    if rng.random() < 0.05:
        data = synth(info['data'], 'fatal')
        off = rng.randrange(max(0, len(data) - len(FATAL_BLOCK) - 3), len(data) + 1) if rng.random() < 0.85 \
            else rng.randrange(0, len(data) + 1)
        return {'file': name, 'offset': off, 'variant': 'fatal', 'fresh': False}
    variant = 'twice' if rng.random() < 0.1 else 'trailing' if rng.random() < 0.12 else 'plain'
    if variant == 'trailing':
        data = synth(info['data'], 'trailing')
        pos = data.rfind(b'\n simulation time (s): 77\n')
        if pos >= 0 and rng.random() < 0.6:
            off = rng.randrange(pos + 1, pos + 28)
        return {'file': name, 'offset': min(off, len(data)), 'variant': 'trailing', 'fresh': False}
    fresh = rng.random() < 0.016
    if fresh and rng.random() < 0.5:
        off = len(info['data'])            # the complete listing, first thing parsed by a process
    if fresh and rng.random() < 0.5:
        # with debug logging on in that process; the listings kept as examples of failures (error paths of the builders)
        # half of the time, cut behind their last complete edition or not at all
        fresh = 'debug'
        failing = [n for n in small if os.path.basename(n).startswith('failure')]
        if failing and rng.random() < 0.5:
            name = rng.choice(failing)
            info = files[name]
            size = len(info['data'])
            off = size if rng.random() < 0.4 else rng.randrange(size - min(size, 400), size + 1)
    return {'file': name, 'offset': min(off, len(info['data'])), 'variant': variant, 'fresh': fresh}


def exhaustive(tier, run):
    if tier != 'thorough':
        return
    run.extra['exhaustive'] = True
    run.extra['exhaustive_scope'] = 'every byte offset of every shipped listing below 15 kB'
    files = listing_files()
    for name in sorted(files):
        if len(files[name]['data']) < 15000:
            for off in range(len(files[name]['data']) + 1):
                yield {'file': name, 'offset': off, 'variant': 'plain'}


def shrink(case):
    return []


def content(case):
    info = listing_files()[case['file']]
    data = info['data'] if case.get('variant', 'plain') == 'plain' else synth(info['data'], case['variant'])
    return data, data[:case['offset']]


CPU_LIMIT = 20.0


class Alarm(Exception):
    pass


def _alarm(_sig, _frm):
    raise Alarm()


def canon(obj, depth=0):
    import numpy as np
    if depth > 30:
        return '...'
    if isinstance(obj, np.ndarray):
        return ('nd', str(obj.dtype), obj.shape, obj.tobytes())
    if isinstance(obj, np.generic):
        return ('ng', str(obj.dtype), obj.tobytes())
    if isinstance(obj, dict):
        return ('dict', [(canon(k, depth + 1), canon(v, depth + 1)) for k, v in obj.items()])
    if isinstance(obj, (list, tuple)):
        return (type(obj).__name__, [canon(x, depth + 1) for x in obj])
    if isinstance(obj, float):
        return ('f', obj.hex())
    if hasattr(obj, '__dict__') and not isinstance(obj, type):
        return ('obj', type(obj).__name__, canon(vars(obj), depth + 1))
    return obj if isinstance(obj, (int, str, bytes, bool, type(None))) else repr(obj)


def checksum(text):
    h = 7
    for ch in text:
        h = (h * 31 + ord(ch)) % 1000000007
    return h


def scan_and_parse(path, want_results=True):
    """what the real code does with the file at `path`"""
    from valjean.eponine.tripoli4.parse import Parser, ParserException
    out = {}
    # "never hangs" is decided on processor time, per call (20 s for Parser() and for each parse_from_number; the whole
    # 3 MB example takes 4 s), so that a loaded machine cannot fake a hang; a wall-clock alarm of 600 s backs it up
    old = signal.signal(signal.SIGALRM, _alarm)
    oldp = signal.signal(signal.SIGPROF, _alarm)
    signal.alarm(600)
    signal.setitimer(signal.ITIMER_PROF, CPU_LIMIT)
    try:
        try:
            parser = Parser(path)
        except ParserException:
            out['outcome'] = 'ParserException'
            return out
        except Alarm:
            out['outcome'] = 'timeout'
            return out
        except Exception as exc:  # pylint: disable=broad-except
            out['outcome'] = type(exc).__name__
            out['detail'] = str(exc)[:160]
            return out
        scan = parser.scan_res
        out['outcome'] = 'ok'
        out['keys'] = [int(k) for k in scan.keys()]
        out['blocks'] = [[len(scan[k]), checksum(scan[k])] for k in scan.keys()]
        out['times'] = [[k, [[int(b), t if isinstance(t, str) else int(t)] for b, t in v.items()]]
                        for k, v in scan.times.items() if isinstance(v, dict)]
        out['init'] = scan.times.get('initialization_time')
        out.update(normalend=scan.normalend, para=scan.para, partial=scan.partial, warnings=scan.countwarnings,
                   errors=scan.counterrors, tasks=scan.tasks, batches=scan.batches['batches'], packet=scan.batches['packet_length'])
        out['parse'] = {}
        if want_results:
            for key in out['keys']:
                try:
                    signal.setitimer(signal.ITIMER_PROF, CPU_LIMIT)
                    pres = parser.parse_from_number(key)
                    out['parse'][key] = ('ok', canon(pres.pres), canon(pres.res.get('list_responses')))
                except ParserException:
                    out['parse'][key] = ('ParserException',)
                except Alarm:
                    out['parse'][key] = ('timeout',)
                except Exception as exc:  # pylint: disable=broad-except
                    out['parse'][key] = (type(exc).__name__, str(exc)[:160])
        return out
    finally:
        signal.setitimer(signal.ITIMER_PROF, 0)
        signal.alarm(0)
        signal.signal(signal.SIGALRM, old)
        signal.signal(signal.SIGPROF, oldp)


_TMP = {}


def work_path(name):
    """one path per role for the whole process: a listing is re-read at the same path as it grows, and other listings are
    read at that path later (nothing may be remembered from one reading to the next)"""
    if 'dir' not in _TMP:
        _TMP['dir'] = tempfile.mkdtemp(prefix='c11-')
        import atexit
        import shutil
        atexit.register(shutil.rmtree, _TMP['dir'], True)
    return os.path.join(_TMP['dir'], name)


_PROBE = {}


def other_thread_parses(timeout=60):
    """after a parse that failed in this thread, a parse in ANOTHER thread of the same process still returns"""
    import threading
    if 'path' not in _PROBE:
        from valjean.eponine.tripoli4.parse import Parser
        files = listing_files()
        _PROBE['path'] = work_path('probe.res')
        for name in sorted(files, key=lambda n: len(files[n]['data'])):       # the smallest complete listing that parses
            if b'NORMAL COMPLETION' not in files[name]['data']:
                continue
            with open(_PROBE['path'], 'wb') as fobj:
                fobj.write(files[name]['data'])
            try:
                Parser(_PROBE['path']).parse_from_index(-1)
                break
            except Exception:  # pylint: disable=broad-except
                continue
    box = {}

    def work():
        from valjean.eponine.tripoli4.parse import Parser, ParserException
        try:
            Parser(_PROBE['path']).parse_from_index(-1)
            box['outcome'] = 'ok'
        except ParserException:
            box['outcome'] = 'ParserException'
        except Exception as exc:  # pylint: disable=broad-except
            box['outcome'] = type(exc).__name__
    thread = threading.Thread(target=work, daemon=True)
    thread.start()
    thread.join(timeout)
    return box.get('outcome', 'hang')


TIME_KEYS = ('simulation_time', 'exploitation_time', 'elapsed_time')


def mask_times(obj):
    """a canonical result with the times printed on the end-flag line blanked"""
    if isinstance(obj, tuple) and len(obj) == 2 and obj[0] == 'dict':
        return ('dict', [(k, None if k in TIME_KEYS else mask_times(v)) for k, v in obj[1]])
    if isinstance(obj, tuple):
        return tuple(mask_times(x) for x in obj)
    if isinstance(obj, list):
        return [mask_times(x) for x in obj]
    return obj


def cut_in_time_digits(full, offset):
    import re
    last = full[:offset].rsplit(b'\n', 1)[-1]
    return bool(re.search(rb'(simulation|exploitation|elapsed) time[^\n]*\d$', last)) and full[offset:offset + 1].isdigit()


def complete_result(case):
    key = (case['file'], case.get('variant', 'plain'))
    if key not in _COMPLETE:
        full, _ = content(case)
        path = work_path('full.res')
        with open(path, 'wb') as fobj:
            fobj.write(full)
        _COMPLETE[key] = scan_and_parse(path)
    return _COMPLETE[key]


FRESH_SCRIPT = '''
import sys, json, logging
if len(sys.argv) > 3 and sys.argv[3] == "debug":
    # debug logging on (what `valjean -v` gives), nothing sent to the terminal
    import valjean
    _log = logging.getLogger("valjean")
    _log.setLevel(logging.DEBUG)
    for _h in _log.handlers:
        _h.setLevel(logging.CRITICAL + 10)
else:
    logging.disable(logging.CRITICAL)
sys.path.insert(0, sys.argv[2])
from props import c11
out = c11.scan_and_parse(sys.argv[1])
out["parse"] = {str(k): (v[0] if v[0] in ("ok", "ParserException", "timeout") else list(v)) for k, v in out.get("parse", {}).items()}
print("RESULT " + json.dumps({k: out[k] for k in ("outcome", "detail", "parse") if k in out}))
'''


def run_fresh(path, mode='quiet'):
    """the same prefix in a brand-new interpreter: nothing was parsed before in that process (`mode` 'debug': with debug
    logging on in that process)"""
    import json
    import subprocess
    import sys
    harness = os.path.dirname(os.path.dirname(os.path.abspath(__file__)))
    env = dict(os.environ, PYTHONPATH=repo() + os.pathsep + os.environ.get('PYTHONPATH', ''))
    try:
        proc = subprocess.run([sys.executable, '-c', FRESH_SCRIPT, path, harness, mode], stdout=subprocess.PIPE, stderr=subprocess.DEVNULL,
                              text=True, timeout=120, env=env, check=False)
    except subprocess.TimeoutExpired:
        return {'outcome': 'timeout'}
    for line in proc.stdout.splitlines():
        if line.startswith('RESULT '):
            return json.loads(line[7:])
    return {'outcome': f'no result (exit code {proc.returncode})'}


def run_impl(case, run):
    import logging
    logging.disable(logging.CRITICAL)
    try:
        _full, prefix = content(case)
        full_res = complete_result(case)
        path = work_path('listing.res')
        with open(path, 'wb') as fobj:
            fobj.write(prefix)
        out = scan_and_parse(path)
        if case.get('fresh'):
            out['fresh'] = run_fresh(path, 'debug' if case['fresh'] == 'debug' else 'quiet')
        failed = out['outcome'] == 'ParserException' or any(v[0] == 'ParserException' for v in out.get('parse', {}).values())
        _PROBE['n'] = _PROBE.get('n', 0) + (1 if failed else 0)
        if failed and (_PROBE['n'] <= 3 or _PROBE['n'] % 5 == 0) and not _PROBE.get('hung'):
            out['other_thread'] = other_thread_parses()
            _PROBE['hung'] = out['other_thread'] == 'hang'
        # compare each edition that parses with the same edition of the complete listing
        out['identical'] = {}
        for key, res in out.get('parse', {}).items():
            if res[0] != 'ok':
                continue
            ref = full_res.get('parse', {}).get(key)
            if ref is None:
                out['identical'][key] = 'edition absent from the complete listing'
            elif ref[0] != 'ok':
                out['identical'][key] = f'the complete listing gives {ref[0]} for this edition'
            elif ref[1:] == res[1:]:
                out['identical'][key] = True
            elif mask_times(ref[1:]) == mask_times(res[1:]) and cut_in_time_digits(_full, case['offset']):
                # the cut falls inside the digits of the time that ends the end-flag line: the number read is a prefix
                out['identical'][key] = 'time digits cut'
            else:
                out['identical'][key] = 'differs'
        out['parse'] = {k: v[0] if v[0] in ('ok', 'ParserException', 'timeout') else list(v) for k, v in out.get('parse', {}).items()}
        return out
    finally:
        logging.disable(logging.NOTSET)


def run_model(case, driver, run):
    _full, prefix = content(case)
    return driver.ask('t4scan', {'text': prefix.decode('utf-8', errors='ignore'), 'repaired': True})


def compare(case, impl, model):
    from vcheck.runner import first_diff
    if impl['outcome'] != model['outcome']:
        return f"outcome: impl={impl['outcome']} {impl.get('detail', '')} model={model['outcome']}"
    if impl['outcome'] != 'ok':
        return None
    keys = ('keys', 'blocks', 'times', 'init', 'normalend', 'para', 'partial', 'warnings', 'errors', 'tasks', 'batches', 'packet')
    return first_diff({k: impl[k] for k in keys}, {k: model[k] for k in keys})


def oracle(case, impl, run):
    fails = []
    run.count('outcome=' + impl['outcome'])
    info = listing_files()[case['file']]
    inside = any(a < case['offset'] < b for a, b in info['spans'])
    run.count('cut inside an interpreted line' if inside else 'cut elsewhere')
    where = f"{case['file']} cut at byte {case['offset']}"
    if impl['outcome'] == 'timeout':
        fails.append(('never_hangs', where + ': Parser() did not return within 20 s of processor time'))
    elif impl['outcome'] not in ('ok', 'ParserException'):
        fails.append(('prefix_no_crash', where + f": Parser() raised {impl['outcome']}: {impl.get('detail', '')}"))
    for key, res in impl.get('parse', {}).items():
        if res == 'timeout':
            fails.append(('never_hangs', where + f': parse_from_number({key}) did not return within 20 s of processor time'))
        elif res not in ('ok', 'ParserException'):
            fails.append(('prefix_no_crash', where + f': parse_from_number({key}) raised {res}'))
        run.count('edition:' + (res if isinstance(res, str) else 'other exception'))
    fresh = impl.get('fresh')
    if fresh is not None:
        run.count('also run in a fresh process')
        if fresh['outcome'] not in ('ok', 'ParserException'):
            fails.append(('prefix_no_crash', where + f": in a fresh process Parser() gives {fresh['outcome']} {fresh.get('detail', '')}"))
        for key, res in fresh.get('parse', {}).items():
            if res not in ('ok', 'ParserException'):
                fails.append(('prefix_no_crash', where + f': in a fresh process parse_from_number({key}) raised {res}'))
            elif impl.get('parse', {}).get(int(key), impl.get('parse', {}).get(key)) != res:
                fails.append(('history_independent', where + f': edition {key} gives {res} in a fresh process but '
                              f"{impl.get('parse', {}).get(int(key))} in a process that has parsed other listings"))
    if 'other_thread' in impl:
        run.count('another thread parses after a failed parse: ' + impl['other_thread'])
        if impl['other_thread'] == 'hang':
            fails.append(('never_hangs', where + ': after this failed parse, a parse of a complete listing in another thread of '
                          'the same process did not return within 60 s'))
        elif impl['other_thread'] != 'ok':
            fails.append(('history_independent', where + f": after this failed parse, a complete listing parsed in another thread "
                          f"gives {impl['other_thread']}"))
    for key, same in impl.get('identical', {}).items():
        if same == 'time digits cut':
            fails.append(('prefix_edition_identical', where + f': TIME-DIGITS-CUT edition {key} parses with a truncated time '
                          '(the cut is inside the digits that end the end-flag line); everything else is identical'))
        elif same is not True:
            fails.append(('prefix_edition_identical', where + f': edition {key} parses, but {same}'))
    return fails


def nontrivial(case, impl):
    info = listing_files()[case['file']]
    if impl['outcome'] == 'ok' or any(a < case['offset'] < b for a, b in info['spans']):
        return (case['file'], case['offset'], case.get('variant'))
    return None


def signature(case, clause, detail):
    return 'time_digits_cut' if clause == 'prefix_edition_identical' and 'TIME-DIGITS-CUT' in str(detail) else clause
