"""C03 — scheduler property (see schedcommon.py and DESIGN.md section 5)."""
from props import schedcommon as sc

PROPERTY = 'C03'
THEOREMS = ['Sched.no_deadlock', 'Sched.clean_exit', 'Sched.raises_iff_cyclic', 'Sched.InvC_step', 'Sched.InvC_init', 'Sched.Inv_reach', 'Sched.bounded_executions', 'Sched.always_terminates', 'Sched.mu_decreases', 'Sched.InvG_step']
BUDGET = {'quick': 250, 'thorough': 6000}
TIME_LIMIT = {'quick': 55, 'thorough': 700}
RULE = ('cyclic graphs (cycle made of hard edges, of soft edges, or closed by one soft edge), stale FAILED/SKIPPED/PENDING entries, repeated calls on the same backend (40% with another graph), all outcome kinds including SystemExit and non-final statuses; 2%: schedulers created without a backend whose calls overlap (nested / concurrent), real threads in a child process; 2%: a worker thread that cannot be started (Thread.start raises at the k-th worker), real threads in a child process, the same backend used again; 1.5%: the environment of an earlier run handed over after pickle / deepcopy / to_file+from_file, real threads in a child process' + '; the real QueueScheduling backend runs under the controlled scheduler; non-trivial = '
        '>= 3 tasks with >= 2 edges on >= 2 workers, or a special feature (cycle, stale entries, same backend, lost '
        'entries, several rounds); distinct = case hash')
CORRESPONDS = sc.CORRESPONDS
TRUSTED = sc.TRUSTED
ASSUMPTIONS = sc.ASSUMPTIONS

# debug logging formats the environment (Env.__repr__ takes the environment lock): under the controlled scheduler these
# are extra recorded steps the model does not have - the recorded schedule changes, not the behaviour
AMBIENT_DEBUGLOG = False


def gen(rng, tier, run):
    if rng.random() < 0.02:
        # schedulers created without a backend (each gets its own), whose calls overlap: one task schedules a graph of its
        # own, or two threads schedule at the same time.  Real threads in a child process, 30 s of wall-clock time.
        return {'overlap': {'mode': rng.choice(['nested', 'nested', 'concurrent']), 'inner': rng.randrange(1, 4),
                            'outer': rng.randrange(1, 4), 'fail': rng.random() < 0.3}}
    if rng.random() < 0.02:
        # a worker thread that cannot be started (RuntimeError: can't start new thread) after `at` workers were started
        workers = rng.randrange(1, 6)
        return {'startfail': {'workers': workers, 'at': rng.randrange(0, workers), 'tasks': rng.randrange(1, 4),
                              'again': rng.random() < 0.5}}
    if rng.random() < 0.015:
        # the environment of an earlier run handed over after a pickle round trip / a deep copy (Env.from_file does that)
        return {'reloaded': {'how': rng.choice(['pickle', 'deepcopy', 'file']), 'tasks': rng.randrange(1, 4),
                             'workers': rng.randrange(1, 4)}}
    return sc.gen(rng, tier, 'C03')


RELOADED_SCRIPT = r'''
import copy, json, os, pickle, sys, tempfile, threading, warnings
warnings.simplefilter('ignore')
import logging
logging.disable(logging.CRITICAL)
from valjean.cosette.depgraph import DepGraph
from valjean.cosette.env import Env
from valjean.cosette.pythontask import PythonTask
from valjean.cosette.scheduler import Scheduler
from valjean.cosette.task import TaskStatus
from valjean.cosette.backends.queue import QueueScheduling
spec = json.loads(sys.argv[1])

def graph(extra):
    tasks = [PythonTask(f't{i}', (lambda i=i: ({f't{i}': {'result': i}}, TaskStatus.DONE))) for i in range(spec['tasks'] + extra)]
    g = DepGraph()
    for t in tasks:
        g.add_node(t)
    for a, b in zip(tasks[1:], tasks):
        g.add_dependency(a, on=b)
    return g

env = Scheduler(hard_graph=graph(0), backend=QueueScheduling(n_workers=spec['workers'])).schedule()
if spec['how'] == 'pickle':
    env = pickle.loads(pickle.dumps(env))
elif spec['how'] == 'deepcopy':
    env = copy.deepcopy(env)
else:
    path = os.path.join(tempfile.mkdtemp(), 'env.pickle')
    env.to_file(path)
    env = Env.from_file(path)
env2 = Scheduler(hard_graph=graph(1), backend=QueueScheduling(n_workers=spec['workers'])).schedule(env=env)
out = {'statuses': sorted((k, int(v['status'])) for k, v in env2.items()), 'threads': threading.active_count()}
print('RESULT ' + json.dumps(out))
'''


STARTFAIL_SCRIPT = r'''
import json, sys, threading, warnings
warnings.simplefilter('ignore')
import logging
logging.disable(logging.CRITICAL)
from valjean.cosette.depgraph import DepGraph
from valjean.cosette.pythontask import PythonTask
from valjean.cosette.scheduler import Scheduler
from valjean.cosette.task import TaskStatus
from valjean.cosette.backends.queue import QueueScheduling
spec = json.loads(sys.argv[1])
orig_start = threading.Thread.start
count = [0]
armed = [True]
def start(self):
    if armed[0] and isinstance(self, QueueScheduling.WorkerThread):
        count[0] += 1
        if count[0] == spec['at'] + 1:
            raise RuntimeError("can't start new thread")
    return orig_start(self)
threading.Thread.start = start

def graph():
    tasks = [PythonTask(f't{i}', (lambda i=i: ({f't{i}': {'result': i}}, TaskStatus.DONE))) for i in range(spec['tasks'])]
    g = DepGraph()
    for t in tasks:
        g.add_node(t)
    for a, b in zip(tasks[1:], tasks):
        g.add_dependency(a, on=b)
    return g

out = {}
backend = QueueScheduling(n_workers=spec['workers'])
try:
    Scheduler(hard_graph=graph(), backend=backend).schedule()
    out['first'] = 'returned'
except RuntimeError as err:
    out['first'] = 'raised'
except BaseException as err:
    out['first'] = 'other:' + type(err).__name__
out['threads'] = threading.active_count()
out['qsize'] = backend.queue.qsize()
out['unfinished'] = backend.queue.unfinished_tasks
if spec['again']:
    armed[0] = False
    env = Scheduler(hard_graph=graph(), backend=backend).schedule()
    out['again'] = sorted((k, int(v['status'])) for k, v in env.items())
    out['threads2'] = threading.active_count()
print('RESULT ' + json.dumps(out))
'''


OVERLAP_SCRIPT = r'''
import json, sys, threading, warnings
warnings.simplefilter('ignore')
import logging
logging.disable(logging.CRITICAL)
from valjean.cosette.depgraph import DepGraph
from valjean.cosette.pythontask import PythonTask
from valjean.cosette.scheduler import Scheduler
from valjean.cosette.task import TaskStatus
spec = json.loads(sys.argv[1])
ran = []

def plain(name, fail=False):
    def body():
        ran.append(name)
        if fail:
            raise RuntimeError('scripted failure')
        return {name: {'result': 1}}, TaskStatus.DONE
    return PythonTask(name, body)

def graph(prefix, n, extra=None, fail=False):
    tasks = [plain(f'{prefix}{i}', fail and i == 0) for i in range(n)] + ([extra] if extra else [])
    g = DepGraph()
    for t in tasks:
        g.add_node(t)
    for a, b in zip(tasks[1:], tasks):
        g.add_dependency(a, on=b)
    return g

out = {}
def inner_job():
    env = Scheduler(hard_graph=graph('in', spec['inner'], fail=spec['fail'])).schedule()
    out['inner'] = sorted((k, int(v['status'])) for k, v in env.items())

def nested_body():
    ran.append('nest')
    inner_job()
    return {'nest': {'result': 1}}, TaskStatus.DONE

def outer_job(extra=None):
    env = Scheduler(hard_graph=graph('out', spec['outer'], extra)).schedule()
    out['outer'] = sorted((k, int(v['status'])) for k, v in env.items())

if spec['mode'] == 'nested':
    outer_job(PythonTask('nest', nested_body))
else:
    th = threading.Thread(target=inner_job)
    th.start()
    outer_job()
    th.join()
out['ran'] = sorted(ran)
out['threads'] = threading.active_count()
print('RESULT ' + json.dumps(out))
'''


def run_child(case, kind, script):
    import json
    import os
    import subprocess
    import sys
    env = dict(os.environ, PYTHONPATH=os.environ.get('VERIF_REPO', '/repo'))
    try:
        proc = subprocess.run([sys.executable, '-c', script, json.dumps(case[kind])], env=env, timeout=30,
                              stdout=subprocess.PIPE, stderr=subprocess.PIPE, text=True)
    except subprocess.TimeoutExpired:
        return {kind: 'timeout'}
    line = next((ln for ln in proc.stdout.splitlines() if ln.startswith('RESULT ')), None)
    if line is None:
        return {kind: 'error', 'stderr': proc.stderr[-400:]}
    return {kind: json.loads(line[7:])}


def run_overlap(case):
    return run_child(case, 'overlap', OVERLAP_SCRIPT)


def shrink(case):
    if 'overlap' in case or 'startfail' in case or 'reloaded' in case:
        return iter(())
    return sc.shrink(case)


def run_impl(case, run):
    if 'overlap' in case:
        return run_overlap(case)
    if 'startfail' in case:
        return run_child(case, 'startfail', STARTFAIL_SCRIPT)
    if 'reloaded' in case:
        return run_child(case, 'reloaded', RELOADED_SCRIPT)
    return sc.run_impl(case, run)


def run_model(case, driver, run):
    if 'overlap' in case or 'startfail' in case or 'reloaded' in case:
        return None
    return sc.run_model(case, driver, run)


compare = sc.compare


def oracle(case, impl, run):
    if 'overlap' in case:
        spec, obs = case['overlap'], impl['overlap']
        run.count('overlap:' + spec['mode'])
        if obs == 'timeout':
            return [('no_deadlock', f'schedulers created without a backend, calls that overlap ({spec}): not back after 30 s')]
        if obs == 'error':
            return [('clean_exit', f"overlapping calls ({spec}): the child process failed: {impl.get('stderr')}")]
        fails = []
        want_inner = [[f'in{i}', 4 if spec['fail'] and i == 0 else (5 if spec['fail'] else 3)] for i in range(spec['inner'])]
        want_outer = [[f'out{i}', 3] for i in range(spec['outer'])] + ([['nest', 3]] if spec['mode'] == 'nested' else [])
        if obs.get('inner') != sorted(want_inner) or obs.get('outer') != sorted(want_outer):
            fails.append(('clean_exit', f"overlapping calls ({spec}): final statuses {obs.get('inner')} / {obs.get('outer')}, "
                          f'expected {sorted(want_inner)} / {sorted(want_outer)}'))
        if obs.get('threads') != 1:
            fails.append(('clean_exit', f"overlapping calls ({spec}): {obs.get('threads')} threads alive after both calls came back"))
        return fails
    if 'reloaded' in case:
        spec, obs = case['reloaded'], impl['reloaded']
        run.count('reloaded:' + spec['how'])
        if obs == 'timeout':
            return [('no_deadlock', f'scheduling from the environment of an earlier run after a round trip ({spec}): not back after 30 s')]
        if obs == 'error':
            return [('clean_exit', f"scheduling from a reloaded environment ({spec}): the child process failed: {impl.get('stderr')}")]
        fails = []
        if obs.get('statuses') != [[f't{i}', 3] for i in range(spec['tasks'] + 1)]:
            fails.append(('clean_exit', f"scheduling from a reloaded environment ({spec}): statuses {obs.get('statuses')}"))
        if obs.get('threads') != 1:
            fails.append(('clean_exit', f"scheduling from a reloaded environment ({spec}): {obs.get('threads')} threads alive"))
        return fails
    if 'startfail' in case:
        spec, obs = case['startfail'], impl['startfail']
        run.count('startfail')
        if obs == 'timeout':
            return [('no_deadlock', f'a worker thread that cannot be started ({spec}): not back after 30 s')]
        if obs == 'error':
            return [('clean_exit', f"a worker thread that cannot be started ({spec}): the child process failed: {impl.get('stderr')}")]
        fails = []
        if obs.get('first') != 'raised':
            fails.append(('clean_exit', f"worker {spec['at'] + 1} of {spec['workers']} cannot be started: schedule() {obs.get('first')}"))
        if obs.get('threads') != 1 or obs.get('threads2', 1) != 1:
            fails.append(('clean_exit', f"worker {spec['at'] + 1} of {spec['workers']} cannot be started: {obs.get('threads')} threads "
                          f"alive after schedule() came back ({obs.get('threads2')} after the next call)"))
        if obs.get('qsize') != 0 or obs.get('unfinished') != 0:
            fails.append(('clean_exit', f"worker {spec['at'] + 1} of {spec['workers']} cannot be started: the work queue holds "
                          f"{obs.get('qsize')} items ({obs.get('unfinished')} unfinished) after schedule() came back"))
        if spec['again'] and obs.get('again') != [[f't{i}', 3] for i in range(spec['tasks'])]:
            fails.append(('clean_exit', f"next call on the same backend after a failed worker start: statuses {obs.get('again')}"))
        return fails
    sc.histogram(case, impl, run)
    return sc.oracle_c03(case, impl, run)[:6]


def nontrivial(case, impl):
    if 'overlap' in case or 'startfail' in case or 'reloaded' in case:
        return case
    return sc.nontrivial_key(case, impl)


def signature(case, clause, detail):
    return clause
