"""C03 — scheduler property (see schedcommon.py and DESIGN.md section 5)."""
from props import schedcommon as sc

PROPERTY = 'C03'
THEOREMS = ['Sched.no_deadlock', 'Sched.clean_exit', 'Sched.raises_iff_cyclic', 'Sched.InvC_step', 'Sched.InvC_init', 'Sched.Inv_reach', 'Sched.bounded_executions', 'Sched.always_terminates', 'Sched.mu_decreases', 'Sched.InvG_step']
BUDGET = {'quick': 250, 'thorough': 6000}
TIME_LIMIT = {'quick': 55, 'thorough': 700}
RULE = ('cyclic graphs (cycle made of hard edges, of soft edges, or closed by one soft edge), stale FAILED/SKIPPED/PENDING entries, repeated calls on the same backend (40% with another graph), all outcome kinds including SystemExit and non-final statuses' + '; the real QueueScheduling backend runs under the controlled scheduler; non-trivial = '
        '>= 3 tasks with >= 2 edges on >= 2 workers, or a special feature (cycle, stale entries, same backend, lost '
        'entries, several rounds); distinct = case hash')
CORRESPONDS = sc.CORRESPONDS
TRUSTED = sc.TRUSTED
ASSUMPTIONS = sc.ASSUMPTIONS

# debug logging formats the environment (Env.__repr__ takes the environment lock): under the controlled scheduler these
# are extra recorded steps the model does not have - the recorded schedule changes, not the behaviour
AMBIENT_DEBUGLOG = False


def gen(rng, tier, run):
    return sc.gen(rng, tier, 'C03')


shrink = sc.shrink
run_impl = sc.run_impl
run_model = sc.run_model
compare = sc.compare


def oracle(case, impl, run):
    sc.histogram(case, impl, run)
    return sc.oracle_c03(case, impl, run)[:6]


def nontrivial(case, impl):
    return sc.nontrivial_key(case, impl)


def signature(case, clause, detail):
    return clause
