"""C06 — Bonferroni and Holm-Bonferroni flag exactly the bins their definitions reject."""
import math
from vcheck.fl import bits, unbits

PROPERTY = 'C06'
THEOREMS = ['Bonf.bonf_flag_iff', 'Bonf.holm_ranks_perm', 'Bonf.holm_ranks_sorted', 'Bonf.holm_flag_rank',
            'Bonf.holm_position_has_rank', 'Bonf.holm_rank_rule', 'Bonf.nan_never_accepted',
            'Bonf.verdict_iff_no_flag', 'Bonf.bonf_subset_holm_partial', 'Bonf.bonf_subset_holm_edge',
            'Bonf.student_pass_passes_both', 'Bonf.argsortNat_inv']
BUDGET = {'quick': 1500, 'thorough': 40000}
TIME_LIMIT = {'quick': 50, 'thorough': 600}
RULE = ('p-value arrays of shapes () to 3-d (size 1-300) drawn from a small pool (ties), exact 0 and 1, NaN, values equal '
        'to per-rank levels, 1-3 compared datasets, alpha log-uniform in (0,1); run through TestBonferroni / '
        'TestHolmBonferroni.evaluate() on a stub test carrying the p-values; non-trivial = some but not all bins flagged, '
        'or a tie group, or a NaN; distinct = case hash')
CORRESPONDS = ('Model/Bonferroni.lean (bonf, holm: argsort / per-rank level / inverse argsort, verdict, oracles, nb_rejected) '
               'vs TestBonferroni / TestHolmBonferroni (bit-exact levels; flags and levels compared per tie group)')
TRUSTED = ['harness/props/c06.py (generator, tie-group canonicaliser, sorted()-based oracle)',
           'vjdriver (compiled Model/Bonferroni.lean, Lean Float = IEEE binary64)',
           'XReal: exact real arithmetic, no rounding (alpha/(m-k) is monotone in k also in binary64)']
ASSUMPTIONS = ['the overall level is alpha/2 (two-sided, as documented in TestBonferroni/TestHolmBonferroni)',
               'at p == alpha/m exactly (rank 1) the inclusion Bonferroni => Holm is not demanded (clauses inconsistent there)',
               'numpy argsort sorts NaN last; ties may be ranked in any order']


def gen(rng, tier, run):
    alpha = 10 ** rng.uniform(-4, -0.01) if rng.random() < 0.8 else rng.choice([0.01, 0.05, 0.5, 0.999])
    shape = rng.choice([[], [1], [2], [3], [5], [17], [40], [300], [2, 3], [4, 5], [2, 2, 3], [1, 1], [20, 3]])
    size = 1
    for n in shape:
        size *= n
    nds = rng.choice([1, 1, 2, 3])
    mode = rng.choice(['pool', 'pool', 'levels', 'pass', 'uniform', 'tiny'])
    pool = [rng.random() * alpha / max(size, 1) * rng.choice([0.5, 1, 2, 10]) for _ in range(3)] + [0.0, 1.0, alpha / 2]
    levels = [(alpha / 2) / k for k in range(1, size + 1)]
    pvals = []
    for _ in range(nds):
        arr = []
        for _ in range(size):
            r = rng.random()
            if r < 0.08 and mode != 'pass':
                arr.append('nan')
            elif mode == 'pool':
                arr.append(bits(rng.choice(pool)))
            elif mode == 'levels':
                lev = rng.choice(levels)
                arr.append(bits(rng.choice([lev, lev, math.nextafter(lev, 0), math.nextafter(lev, 1), rng.random()])))
            elif mode == 'pass':
                arr.append(bits(min(1.0, alpha + rng.random() * (1 - alpha) + 1e-12)))
            elif mode == 'tiny':
                arr.append(bits(rng.random() * alpha / (2 * size) * rng.choice([0.1, 1, 1.5])))
            else:
                arr.append(bits(rng.random()))
        pvals.append(arr)
    return {'alpha': bits(alpha), 'shape': shape, 'p': pvals, 'order': rng.choice(['C', 'C', 'F', 'strided'])}


def shrink(case):
    if len(case['p']) > 1:
        for i in range(len(case['p'])):
            yield dict(case, p=case['p'][:i] + case['p'][i + 1:])
    size = len(case['p'][0])
    if size > 3:
        half = size // 2
        yield dict(case, shape=[half], p=[a[:half] for a in case['p']])
        yield dict(case, shape=[size - half], p=[a[half:] for a in case['p']])
    if size > 1:
        for i in range(size):
            yield dict(case, shape=[size - 1], p=[a[:i] + a[i + 1:] for a in case['p']])


def _stub(case):
    import numpy as np
    from valjean.gavroche.test import Test

    class _DS:  # pylint: disable=too-few-public-methods
        size = len(case['p'][0])

    def layout(arr):
        # same content, another memory layout (Fortran order, or a strided view): results are reported by position
        if case.get('order') == 'F' and arr.ndim >= 2:
            return np.asfortranarray(arr)
        if case.get('order') == 'strided' and arr.ndim >= 1:
            big = np.zeros(tuple(2 * n for n in arr.shape), dtype=float)
            view = big[tuple(slice(None, None, 2) for _ in arr.shape)]
            view[...] = arr
            return view
        return arr

    class _Res:  # pylint: disable=too-few-public-methods
        pvalue = [layout(np.array([unbits(x) for x in arr], dtype=float).reshape(case['shape'])) for arr in case['p']]

    class StubPTest(Test):
        '''carries p-values'''
        dsref = _DS()
        datasets = [_DS() for _ in case['p']]     # as TestDataset: the datasets compared with dsref

        def evaluate(self):
            return _Res()

        def data(self):
            yield b'stub'
    return StubPTest(name='stub')


def run_impl(case, run):
    import numpy as np
    from valjean.gavroche.stat_tests import bonferroni as bmod
    alpha = unbits(case['alpha'])
    out = {}
    try:
        stub = _stub(case)
        before = [arr.copy() for arr in stub.evaluate().pvalue]
        tbon = bmod.TestBonferroni(name='b', test=stub, alpha=alpha)
        res = tbon.evaluate()
        out['level'] = bits(tbon.bonf_signi_level)
        out['alpha2'] = bits(tbon.alpha)
        out['bonf'] = [[bool(x) for x in np.asarray(r).flatten()] for r in res.rejected_null_hyp]
        out['bonfShapes'] = [list(np.asarray(r).shape) for r in res.rejected_null_hyp]
        out['bonfVerdict'] = bool(res)
        out['bonfOracles'] = [bool(x) for x in res.oracles()]
        out['bonfNb'] = [int(x) for x in res.nb_rejected]
        thb = bmod.TestHolmBonferroni(name='h', test=stub, alpha=alpha)
        res = thb.evaluate()
        out['holmLevels'] = [[bits(x) for x in np.asarray(a).flatten()] for a in res.alphas_i]
        out['holmFlags'] = [[bool(x) for x in np.asarray(r).flatten()] for r in res.rejected_null_hyp]
        out['holmShapes'] = [list(np.asarray(r).shape) for r in res.rejected_null_hyp]
        out['holmVerdict'] = bool(res)
        out['holmOracles'] = [bool(x) for x in res.oracles()]
        out['holmNb'] = [int(x) for x in res.nb_rejected]
        out['inputs_unchanged'] = all(np.array_equal(a, b, equal_nan=True) for a, b in zip(before, stub.evaluate().pvalue))
        # the same test objects evaluated once more give the same results
        res2 = thb.evaluate()
        resb = tbon.evaluate()
        out['again'] = (bool(res2) == out['holmVerdict'] and bool(resb) == out['bonfVerdict']
                        and [[bool(x) for x in np.asarray(r).flatten()] for r in res2.rejected_null_hyp] == out['holmFlags']
                        and [[bool(x) for x in np.asarray(r).flatten()] for r in resb.rejected_null_hyp] == out['bonf'])
    except Exception as exc:  # pylint: disable=broad-except
        out['error'] = f'{type(exc).__name__}: {exc}'[:300]
    return out


def run_model(case, driver, run):
    return driver.ask('bonf', {'alpha': case['alpha'], 'm': len(case['p'][0]), 'p': case['p'], 'pinned': False})


def groups(arr):
    grp = {}
    for i, x in enumerate(arr):
        grp.setdefault(x, []).append(i)
    return grp


def canon_holm(pvals, levels, flags):
    out = []
    for arr, lev, flg in zip(pvals, levels, flags):
        out.append({key: sorted((lev[i], flg[i]) for i in idx) for key, idx in groups(arr).items()})
    return out


def compare(case, impl, model):
    from vcheck.runner import first_diff
    if 'error' in impl:
        return f"impl raised {impl['error']}"
    keys = ['level', 'alpha2', 'bonf', 'bonfVerdict', 'bonfOracles', 'bonfNb', 'holmVerdict', 'holmOracles', 'holmNb']
    diff = first_diff({k: impl[k] for k in keys}, {k: model[k] for k in keys})
    if diff:
        return diff
    return first_diff(canon_holm(case['p'], impl['holmLevels'], impl['holmFlags']),
                      canon_holm(case['p'], model['holmLevels'], model['holmFlags']))


def oracle(case, impl, run):
    if 'error' in impl:
        run.count('error')
        return [('no_unexpected_exception', impl['error'])]
    fails = []
    alpha = unbits(case['alpha'])
    size = len(case['p'][0])
    level = (alpha / 2) / size
    run.count(f'size={size if size < 6 else "6+"}')
    any_nan = any(x == 'nan' for arr in case['p'] for x in arr)
    if any_nan:
        run.count('has_nan')
    if not impl['inputs_unchanged']:
        fails.append(('inputs_unchanged', 'p-value arrays modified'))
    if impl.get('again') is False:
        fails.append(('history_independent', 'a second evaluate() on the same Bonferroni / Holm-Bonferroni test object gives '
                      'another result'))
    for k in ('bonfShapes', 'holmShapes'):
        if any(s != case['shape'] for s in impl[k]):
            fails.append(('flags_keep_shape', f'{k}: {impl[k]} vs {case["shape"]}'))
    if (len(impl['bonf']) != len(case['p']) or len(impl['holmFlags']) != len(case['p'])
            or any(len(f) != size for f in impl['bonf'] + impl['holmFlags'])):
        fails.append(('flags_keep_shape', f"{len(case['p'])} compared dataset(s) of {size} bins, flags reported for "
                      f"{[len(f) for f in impl['bonf']]} / {[len(f) for f in impl['holmFlags']]} bins"))
        return fails[:6]
    interesting = any_nan
    all_bonf, all_holm = [], []
    for ids, arr in enumerate(case['p']):
        vals = [unbits(x) for x in arr]
        # Bonferroni
        exp = [(math.isnan(v) or v <= level) for v in vals]
        got = impl['bonf'][ids]
        all_bonf.append(got)
        for i, (e, g) in enumerate(zip(exp, got)):
            if e != g:
                clause = 'nan_never_accepted' if math.isnan(vals[i]) else 'bonf_flag_iff'
                fails.append((clause, f'dataset {ids} bin {i}: p={vals[i]!r} level={level!r} flagged={g}'))
                break
        # Holm: ranks with NaN last; tie groups get the multiset of their ranks' decisions
        order = sorted(range(size), key=lambda i: (math.isnan(vals[i]), vals[i] if not math.isnan(vals[i]) else 0.0))
        rank_level = [(alpha / 2) / (size - k) for k in range(size)]
        exp_grp = {}
        for k, i in enumerate(order):
            v = vals[i]
            flag = True if math.isnan(v) else v < rank_level[k]
            exp_grp.setdefault(arr[i], []).append((bits(rank_level[k]), flag))
        got_grp = {}
        for i in range(size):
            got_grp.setdefault(arr[i], []).append((impl['holmLevels'][ids][i], impl['holmFlags'][ids][i]))
        all_holm.append(impl['holmFlags'][ids])
        if len(exp_grp) < size:
            interesting = True
            run.count('has_ties')
        for key in exp_grp:
            if sorted(exp_grp[key]) != sorted(got_grp[key]):
                clause = 'nan_never_accepted' if key == 'nan' else 'holm_flag_rank'
                fails.append((clause, f'dataset {ids} p={key if key == "nan" else unbits(key)!r}: expected '
                                      f'{sorted(exp_grp[key])[:4]} got {sorted(got_grp[key])[:4]}'))
                break
        # inclusion Bonferroni => Holm (away from p == alpha/m)
        if not any(v == level for v in vals if not math.isnan(v)):
            for i in range(size):
                if got[i] and not impl['holmFlags'][ids][i]:
                    fails.append(('bonf_subset_holm', f'dataset {ids} bin {i} p={vals[i]!r}'))
                    break
        if all((not math.isnan(v)) and v > alpha for v in vals):
            run.count('all_pass_bin_by_bin')
            if any(got) or any(impl['holmFlags'][ids]):
                fails.append(('student_pass_passes_both', f'dataset {ids}'))
        nflag = sum(impl['holmFlags'][ids])
        if 0 < nflag < size:
            interesting = True
    for name, flags in (('bonf', all_bonf), ('holm', all_holm)):
        if impl[f'{name}Verdict'] != (not any(any(f) for f in flags)):
            fails.append(('verdict_iff_no_flag', f'{name}: verdict={impl[f"{name}Verdict"]}'))
        if impl[f'{name}Oracles'] != [not any(f) for f in flags] or impl[f'{name}Nb'] != [sum(f) for f in flags]:
            fails.append(('verdict_iff_no_flag', f'{name}: oracles/nb_rejected inconsistent with flags'))
    impl['_nontrivial'] = interesting
    return fails


def nontrivial(case, impl):
    return case if impl.get('_nontrivial') else None


def signature(case, clause, detail):
    if clause == 'nan_never_accepted':
        return 'A7:nan-pvalue-accepted'
    return clause
