"""C04 — scheduler property (see schedcommon.py and DESIGN.md section 5)."""
from props import schedcommon as sc

PROPERTY = 'C04'
THEOREMS = ['Sched.rerun_consistent', 'Sched.rerun_envcons', 'Sched.EnvCons_sub', 'Sched.decided_final_frozen', 'Sched.InvD_step', 'Sched.InvD_init', 'Sched.decide_drop_clocks', 'Sched.fresh_not_rerun', 'Sched.freshSet_of_envcons', 'Sched.InvF_step', 'Sched.decide_fresh']
BUDGET = {'quick': 250, 'thorough': 6000}
TIME_LIMIT = {'quick': 55, 'thorough': 700}
RULE = ('histories of 2-5 runs with failures, recoveries, lost entries, added tasks' + '; the real QueueScheduling backend runs under the controlled scheduler; non-trivial = '
        '>= 3 tasks with >= 2 edges on >= 2 workers, or a special feature (cycle, stale entries, same backend, lost '
        'entries, several rounds); distinct = case hash')
CORRESPONDS = sc.CORRESPONDS
TRUSTED = sc.TRUSTED
ASSUMPTIONS = sc.ASSUMPTIONS

# debug logging formats the environment (Env.__repr__ takes the environment lock): under the controlled scheduler these
# are extra recorded steps the model does not have - the recorded schedule changes, not the behaviour
AMBIENT_DEBUGLOG = False


def gen(rng, tier, run):
    return sc.gen(rng, tier, 'C04')


shrink = sc.shrink
run_impl = sc.run_impl
run_model = sc.run_model
compare = sc.compare


def oracle(case, impl, run):
    sc.histogram(case, impl, run)
    return sc.oracle_c04(case, impl, run)[:6]


def nontrivial(case, impl):
    return sc.nontrivial_key(case, impl)


def signature(case, clause, detail):
    return clause
