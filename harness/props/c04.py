"""C04 — scheduler property (see schedcommon.py and DESIGN.md section 5)."""
from props import schedcommon as sc

PROPERTY = 'C04'
THEOREMS = ['Sched.rerun_consistent', 'Sched.rerun_envcons', 'Sched.EnvCons_sub', 'Sched.decided_final_frozen', 'Sched.InvD_step', 'Sched.InvD_init', 'Sched.decide_drop_clocks', 'Sched.fresh_not_rerun', 'Sched.freshSet_of_envcons', 'Sched.InvF_step', 'Sched.decide_fresh']
BUDGET = {'quick': 250, 'thorough': 6000}
TIME_LIMIT = {'quick': 55, 'thorough': 700}
RULE = ('histories of 2-5 runs with failures, recoveries, lost entries, added tasks; 6%: the whole `valjean run` flow run two or three times on one output root in a child process (job file, closure of the returned tasks, persisted environments read back and written), tasks that succeed, environments lost between runs' + '; the real QueueScheduling backend runs under the controlled scheduler; non-trivial = '
        '>= 3 tasks with >= 2 edges on >= 2 workers, or a special feature (cycle, stale entries, same backend, lost '
        'entries, several rounds); distinct = case hash')
CORRESPONDS = sc.CORRESPONDS
TRUSTED = sc.TRUSTED
ASSUMPTIONS = sc.ASSUMPTIONS

# debug logging formats the environment (Env.__repr__ takes the environment lock): under the controlled scheduler these
# are extra recorded steps the model does not have - the recorded schedule changes, not the behaviour
AMBIENT_DEBUGLOG = False


def gen(rng, tier, run):
    if rng.random() < 0.06:
        # the whole `valjean run` flow, twice or three times on the same output root (job file -> tasks and their closure ->
        # persisted environments read back -> scheduler -> environments written): tasks that always succeed; between two
        # runs the persisted environment of some tasks is lost.  A child process, real threads.
        n = rng.randrange(2, 7)
        deps, hard = sc.gen_graph(rng, n + 3, rng.choice([0.3, 0.5, 0.8]))
        deps, hard = [list(d) for d in deps[:n]], [list(d) for d in hard[:n]]
        # the job returns a few tasks (often only the last one): the others are found through their dependents
        returned = sorted(rng.sample(range(n), rng.randrange(1, n + 1))) if rng.random() < 0.4 else [n - 1]
        return {'cli': {'n': n, 'deps': deps, 'hard': hard, 'returned': returned, 'workers': rng.choice([1, 2, 4]),
                        'lose': [[t for t in range(n) if rng.random() < 0.25] for _ in range(rng.choice([1, 1, 2]))]}}
    return sc.gen(rng, tier, 'C04')


CLI_SCRIPT = r'''
import json, os, sys, tempfile, textwrap, warnings
warnings.simplefilter('ignore')
spec = json.loads(sys.argv[1])
from valjean.cambronne.main import main as valjean_main
tmp = tempfile.mkdtemp(prefix='c04cli_')
log = os.path.join(tmp, 'executions.log')
job = os.path.join(tmp, 'c04_cli_job.py')
with open(job, 'w') as fobj:
    fobj.write(textwrap.dedent(f"""
        from pathlib import Path
        from valjean.cosette.task import Task, TaskStatus
        LOG = Path({log!r})
        DEPS = {spec['deps']!r}
        HARD = {spec['hard']!r}

        class Step(Task):
            def do(self, env, config):
                out = Path(config.query('path', 'output-root'), self.name)
                out.mkdir(parents=True, exist_ok=True)
                with LOG.open('a') as lg:
                    lg.write(self.name + '\\n')
                return ({{self.name: {{'output_dir': str(out), 'result': 1}}}}, TaskStatus.DONE)

        def job():
            tasks = []
            for t in range({spec['n']}):
                tasks.append(Step(f't{{t}}', deps=[tasks[d] for d in DEPS[t] if d in HARD[t]],
                                  soft_deps=[tasks[d] for d in DEPS[t] if d not in HARD[t]]))
            return [tasks[t] for t in {spec['returned']!r}]
    """))
cfg = os.path.join(tmp, 'valjean.cfg')
with open(cfg, 'w') as fobj:
    fobj.write(f'[path]\nlog-root = "{tmp}/log"\noutput-root = "{tmp}/output"\nreport-root = "{tmp}/report"\n')
argv = ['-c', cfg, 'run', '-j', str(spec['workers']), job]

def executions():
    if not os.path.exists(log):
        return {}
    names = open(log).read().split()
    return {name: names.count(name) for name in sorted(set(names))}

rounds = []
try:
    valjean_main(argv)
    rounds.append(executions())
    for lose in spec['lose']:
        for t in lose:
            path = os.path.join(tmp, 'output', f't{t}', 'valjean.env')
            if os.path.exists(path):
                os.remove(path)
        valjean_main(argv)
        rounds.append(executions())
    print('RESULT ' + json.dumps({'rounds': rounds}))
except BaseException as exc:
    print('RESULT ' + json.dumps({'rounds': rounds, 'raised': f'{type(exc).__name__}: {exc}'[:300]}))
finally:
    import shutil
    shutil.rmtree(tmp, ignore_errors=True)
'''


def run_cli(case):
    import json
    import os
    import subprocess
    import sys
    env = dict(os.environ, PYTHONPATH=os.environ.get('VERIF_REPO', '/repo'))
    try:
        proc = subprocess.run([sys.executable, '-c', CLI_SCRIPT, json.dumps(case['cli'])], env=env, timeout=120,
                              stdout=subprocess.PIPE, stderr=subprocess.PIPE, text=True)
    except subprocess.TimeoutExpired:
        return {'cli': 'timeout'}
    line = next((ln for ln in proc.stdout.splitlines() if ln.startswith('RESULT ')), None)
    if line is None:
        return {'cli': 'error', 'stderr': proc.stderr[-400:]}
    return {'cli': json.loads(line[7:])}


def oracle_cli(case, impl, run):
    spec, obs = case['cli'], impl['cli']
    run.count('via:valjean run')
    if obs in ('timeout', 'error'):
        return [('rerun_consistent', f"`valjean run` on {spec}: {obs} {impl.get('stderr', '')}")]
    if 'raised' in obs:
        return [('rerun_consistent', f"`valjean run` on {spec} raised {obs['raised']}")]
    n, deps = spec['n'], spec['deps']
    closure = set(spec['returned'])
    stack = list(closure)
    while stack:
        for d in deps[stack.pop()]:
            if d not in closure:
                closure.add(d)
                stack.append(d)
    fails = []
    want = {f't{t}': 1 for t in sorted(closure)}
    if obs['rounds'][0] != want:
        fails.append(('rerun_consistent', f"first run: executions {obs['rounds'][0]}, expected once each of {sorted(want)}"))
        return fails
    prev = dict(want)
    for ri, lose in enumerate(spec['lose'], start=1):
        # a task is executed again exactly when its persisted environment was lost or a task it depends on (hard or soft)
        # is executed again; the other tasks (DONE, every dependency DONE and not re-executed) are left alone
        again = set()
        for t in sorted(closure):
            if t in lose or any(d in again for d in deps[t]):
                again.add(t)
        want = {name: cnt + (1 if int(name[1:]) in again else 0) for name, cnt in prev.items()}
        if obs['rounds'][ri] != want:
            clause = 'fresh_not_rerun' if any(obs['rounds'][ri].get(k, 0) > v for k, v in want.items()) else 'rerun_consistent'
            fails.append((clause, f"run {ri + 1} after losing the environments of {lose}: executions {obs['rounds'][ri]}, "
                          f'expected {want} (graph {deps}, job returns {spec["returned"]})'))
            break
        prev = want
    return fails


def shrink(case):
    if 'cli' in case:
        return iter(())
    return sc.shrink(case)


def run_impl(case, run):
    if 'cli' in case:
        return run_cli(case)
    return sc.run_impl(case, run)


def run_model(case, driver, run):
    if 'cli' in case:
        return None
    return sc.run_model(case, driver, run)


compare = sc.compare


def oracle(case, impl, run):
    if 'cli' in case:
        return oracle_cli(case, impl, run)[:6]
    sc.histogram(case, impl, run)
    return sc.oracle_c04(case, impl, run)[:6]


def nontrivial(case, impl):
    if 'cli' in case:
        return case
    return sc.nontrivial_key(case, impl)


def signature(case, clause, detail):
    return clause
