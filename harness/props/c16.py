"""C16 — the dependency graph mirrors a plain node/edge set under any edit history
(valjean/cosette/depgraph.py, valjean/cosette/rlist.py)."""
import itertools

PROPERTY = 'C16'
THEOREMS = ['DG.rlist_append_inv', 'DG.rlist_setItem_inv', 'DG.rlist_delItem_inv', 'DG.rlist_insert_inv',
            'DG.rlist_swap_inv', 'DG.rlist_ofList_inv', 'DG.rlist_getIndex_spec', 'DG.addNode_refines',
            'DG.addDep_refines', 'DG.removeDep_refines', 'DG.removeNode_refines', 'DG.step_refines',
            'DG.history_refines', 'DG.history_errors', 'DG.dependencies_spec', 'DG.c16_pinned_refuted', 'DG.multi_history_refines', 'DG.merge_refines', 'DG.copy_refines', 'DG.items_spec',
            'DG.topo_sound', 'DG.topo_acyclic', 'DG.topo_cyclic', 'DG.topo_history', 'DG.topologicalSort_sound',
            'DG.topologicalSort_total', 'DG.visit_sound', 'DG.visit_total', 'DG.invert_refines', 'DG.mkGraph_refines',
            'DG.dependees_reads', 'DG.initial_terminal_spec', 'DG.graft_refines_spec', 'DG.graft_refines', 'DG.graft_nodes',
            'DG.graft_preserves_order', 'DG.graft_order_sound', 'DG.graft_order_complete', 'DG.exists_init_term',
            'DG.closure_spec', 'DG.reduction_spec', 'DG.closure_refines', 'DG.reduction_refines', 'DG.reduction_fewest',
            'DG.closure_most', 'DG.cloVisit_spec', 'DG.redVisit_spec', 'DG.le_reads', 'DG.eq_reads', 'DG.eqv_spec',
            'DG.grafts_preserve_order', 'DG.flatten_round_eq', 'DG.dependencies_rec_reads', 'DG.depsLoop_spec',
            'DG.depends_rec_reads', 'DG.dependsLoop_total', 'DG.dependencies_rec_returns', 'DG.depsLoop_total', 'DG.flatten_all_plain', 'DG.flatten_one_level_returns', 'DG.flatten_returns',
            'DG.flatten_order_preserved', 'DG.flatten_order_all_plain', 'DG.nesting_order_on_outer', 'DG.graft_acyclic']
BUDGET = {'quick': 1200, 'thorough': 30000}
TIME_LIMIT = {'quick': 50, 'thorough': 700}
RULE = ('edit histories of 1-30 operations over up to 6 graph variables (SSA: copy/invert/+ create a new variable) '
        'and 7 plain node objects plus nested graphs (empty ones too): add_node, remove_node, add_dependency, '
        'remove_dependency, merge, copy, invert, +, graft, flatten, transitive_reduction/closure (12%: a nested graph of 0-3 nodes '
        'with up to 4 dependees and 3 dependencies, grafted or flattened), followed by every '
        'query (nodes, dependencies direct/recursive, dependees, topological_sort, initial, terminal, depends, <=, ==); '
        '25% of the cases: one DAG on 4-6 nodes built in a random order, reduced / closed in place with queries before, between and after; thorough adds every digraph on <= 4 nodes x every single operation and query and every forward DAG on 5 nodes x reduction and closure; non-trivial = a graph with '
        '>= 3 nodes and >= 2 edges was edited by a removal, merge, inversion or graft; distinct = case hash')
CORRESPONDS = ('Model/DepGraph.lean (RList, G.addNode/removeNode/addDep/removeDep/merge/copy/invert/graft/flattenLoop/'
               'transitiveReduction/transitiveClosure/topologicalSort/dependencies/dependees/initial/terminal/le/eqv) vs '
               'valjean.cosette.depgraph.DepGraph')
TRUSTED = ['harness/props/c16.py (generator, node/edge-set oracle with reachability)', 'vjdriver (compiled Model/DepGraph.lean)']
ASSUMPTIONS = ['nodes are compared by identity (RList key=id), as DepGraph does',
               'topological_sort is called on graphs of plain (hashable) nodes only; its order among independent nodes '
               'is not canonical (set iteration): validity of the order is checked, not equality with the model',
               'graft/flatten are exercised only when the expanded graph is acyclic',
               '<= and == are observed on graphs of plain nodes only (nested graphs compare by isomorphism)']

NB = 100  # nested base id


class Node:
    """A plain hashable node compared by identity."""
    def __init__(self, k):
        self.k = k

    def __repr__(self):
        return f'N{self.k}'


# ------------------------------------------------------------------------------------------------
# abstract spec: variables are (set of node ids, set of edges)
# ------------------------------------------------------------------------------------------------

def reach_from(edges, x):
    """nodes reachable from x by >= 1 edge"""
    adj = {}
    for a, b in edges:
        adj.setdefault(a, set()).add(b)
    seen, stack = set(), list(adj.get(x, ()))
    while stack:
        n = stack.pop()
        if n in seen:
            continue
        seen.add(n)
        stack.extend(adj.get(n, ()))
    return seen


class Hang(Exception):
    pass


def _hang(signum, frame):
    raise Hang()


def cpu_limited(func, seconds=10, code_name=None, max_lines=None):
    """func(), or the string 'hang' when it has used `seconds` of processor time without returning, or executed more than
    `max_lines` source lines in the frames of the function called `code_name` (a search that revisits what it has seen can
    also grow its work list geometrically: the line budget stops it before memory does)"""
    import signal
    import sys
    count = [0]

    def local(frame, event, arg):
        if event == 'line':
            count[0] += 1
            if count[0] > max_lines:
                raise Hang()
        return local

    def tracer(frame, event, arg):
        return local if frame.f_code.co_name == code_name else None
    old = signal.signal(signal.SIGPROF, _hang)
    signal.setitimer(signal.ITIMER_PROF, seconds)
    if code_name:
        sys.settrace(tracer)
    try:
        return func()
    except Hang:
        return 'hang'
    finally:
        if code_name:
            sys.settrace(None)
        signal.setitimer(signal.ITIMER_PROF, 0)
        signal.signal(signal.SIGPROF, old)


def acyclic(nodes, edges):
    return all(x not in reach_from(edges, x) for x in nodes)


def expand(spec, v, depth=0):
    """all-to-all expansion of the nested graphs of variable v: (plain nodes, edges)."""
    nodes, edges = spec[v]
    if depth > 8:
        raise RecursionError
    out_nodes, out_edges = set(), set()
    content = {}
    for x in nodes:
        if x >= NB:
            cn, ce = expand(spec, x - NB, depth + 1)
            content[x] = cn
            out_nodes |= cn
            out_edges |= ce
        else:
            content[x] = {x}
            out_nodes.add(x)
    # edges through (possibly empty) nested nodes: keep the nested nodes as relay points
    relay = set()
    for a, b in edges:
        for p in content[a] | ({('relay', a)} if a >= NB else set()):
            for q in content[b] | ({('relay', b)} if b >= NB else set()):
                relay.add((p, q))
    # a relay node stands for "everything in the nested graph": u -> relay -> w gives u -> w
    out_edges |= relay
    return out_nodes, out_edges


def plain_order(nodes, edges):
    """reachability restricted to plain nodes (relay points removed)"""
    return {(a, b) for a in nodes if not isinstance(a, tuple) for b in reach_from(edges, a)
            if not isinstance(b, tuple)}


class Spec:
    """Abstract semantics of one history."""

    def __init__(self):
        self.vars = []

    def apply(self, op):
        """returns the expected output for the op ('ok', error dict, value) or ('skip', reason)."""
        name = op[0]
        V = self.vars
        if name == 'new':
            V.append((set(), set()))
            return 'ok'
        if name == 'copy':
            V.append((set(V[op[1]][0]), set(V[op[1]][1])))
            return 'ok'
        if name == 'invert':
            V.append((set(V[op[1]][0]), {(b, a) for a, b in V[op[1]][1]}))
            return 'ok'
        if name == 'add':
            V.append((V[op[1]][0] | V[op[2]][0], V[op[1]][1] | V[op[2]][1]))
            return 'ok'
        nodes, edges = V[op[1]]
        if name == 'add_node':
            nodes.add(op[2])
            return 'ok'
        if name == 'remove_node':
            nodes.discard(op[2])
            V[op[1]] = (nodes, {(a, b) for a, b in edges if op[2] not in (a, b)})
            return 'ok'
        if name == 'add_dep':
            nodes.update((op[2], op[3]))
            edges.add((op[2], op[3]))
            return 'ok'
        if name == 'remove_dep':
            if op[2] not in nodes or op[3] not in nodes:
                return {'err': 'ValueError'}
            if (op[2], op[3]) not in edges:
                return {'err': 'KeyError'}
            edges.discard((op[2], op[3]))
            return 'ok'
        if name == 'merge':
            on, oe = V[op[2]]
            V[op[1]] = (nodes | on, edges | oe)
            return 'ok'
        if name == 'close':
            V[op[1]] = (nodes, {(a, b) for a in nodes for b in reach_from(edges, a)})
            return 'ok'
        if name == 'reduce':
            keep = set()
            for a, b in edges:
                others = {(c, d) for c, d in edges if (c, d) != (a, b)}
                if b not in reach_from(others, a):
                    keep.add((a, b))
            V[op[1]] = (nodes, keep)
            return 'ok'
        if name in ('graft', 'flatten'):
            return ('order',)
        if name == 'dump':
            return {'nodes': sorted(nodes), 'edges': sorted([a, b] for a, b in edges)}
        if name == 'len':
            return len(nodes)
        if name == 'contains':
            return op[2] in nodes
        if name in ('deps', 'deps_rec', 'dependees'):
            if op[2] not in nodes:
                return {'err': 'ValueError'}
            if name == 'deps':
                return sorted(b for a, b in edges if a == op[2])
            if name == 'dependees':
                return sorted(a for a, b in edges if b == op[2])
            return sorted(reach_from(edges, op[2]))
        if name == 'initial':
            return sorted(x for x in nodes if not any(b == x for _, b in edges))
        if name == 'terminal':
            return sorted(x for x in nodes if not any(a == x for a, _ in edges))
        if name == 'topo':
            return ('topo', acyclic(nodes, edges))
        if name == 'depends':
            if op[2] not in nodes or op[3] not in nodes:
                return {'err': 'ValueError'}
            if op[4]:
                return op[3] in reach_from(edges, op[2])
            return (op[2], op[3]) in edges
        if name == 'le':
            hn, he = V[op[2]]
            return nodes <= hn and edges <= he
        if name == 'eq':
            hn, he = V[op[2]]
            return nodes == hn and edges == he
        raise ValueError(name)


# ------------------------------------------------------------------------------------------------
# generator
# ------------------------------------------------------------------------------------------------

def nested_ids(spec, v):
    return {x for x in spec.vars[v][0] if x >= NB}


def gen_dag(rng):
    """one acyclic graph on 4-6 nodes built in a random order, reduced and closed in place, with the queries asked before,
    between and after (a query may not remember what it answered before an in-place change)"""
    n = rng.choice([4, 5, 5, 5, 6])
    order = list(range(n))
    rng.shuffle(order)
    dens = rng.choice([0.3, 0.5, 0.7])
    edges = [(order[a], order[b]) for a in range(n) for b in range(a + 1, n) if rng.random() < dens]
    rng.shuffle(edges)
    ops = [['new', 0]]
    nodes = list(range(n))
    rng.shuffle(nodes)
    for x in nodes:
        if rng.random() < 0.5:
            ops.append(['add_node', 0, x])
    for a, b in edges:
        ops.append(['add_dep', 0, a, b])
    for x in range(n):
        ops.append(['add_node', 0, x])

    def ask():
        for x in rng.sample(range(n), rng.randrange(1, n + 1)):
            ops.append([rng.choice(['dependees', 'deps', 'deps_rec']), 0, x])
        if rng.random() < 0.5:
            ops.append([rng.choice(['initial', 'terminal', 'topo', 'dump']), 0])
    ask()
    for op in rng.sample(['reduce', 'close', 'reduce'], rng.randrange(1, 4)):
        if rng.random() < 0.3:
            ops.append(['copy', 0])
        ops.append([op, 0])
        ops.append(['dump', 0])
        ask()
    for x in range(n):
        ops += [['deps', 0, x], ['dependees', 0, x], ['deps_rec', 0, x]]
    ops += [['initial', 0], ['terminal', 0], ['topo', 0], ['dump', 0]]
    # the nodes are plain Python integers that have nothing to do with their position in the graph
    # ... or equal-but-distinct hashable objects (the graph tells nodes apart by identity, like `nodes()` and `len`)
    return {'ops': ops, 'intnodes': rng.choice([None, None, 'id', 'rev', 'affine', 'equal'])}


def gen_graft(rng):
    """a nested graph (0-3 nodes) standing in a graph with several dependees and several dependencies, grafted or
    flattened: every dependee must end up after every node of the nested graph, which must end up after every dependency"""
    ops = [['new', 0], ['new', 1]]
    sub = list(range(10, 10 + rng.choice([0, 1, 2, 2, 3])))
    for x in sub:
        ops.append(['add_node', 1, x])
    for a in range(len(sub)):
        for b in range(a + 1, len(sub)):
            if rng.random() < 0.4:
                ops.append(['add_dep', 1, sub[a], sub[b]])
    above = list(range(0, rng.choice([1, 2, 2, 3, 4])))          # depend on the nested graph
    below = list(range(5, 5 + rng.choice([0, 1, 2, 2, 3])))      # the nested graph depends on them
    wiring = [['add_dep', 0, x, NB + 1] for x in above] + [['add_dep', 0, NB + 1, y] for y in below]
    rng.shuffle(wiring)
    ops += wiring or [['add_node', 0, NB + 1]]
    for x in above:
        for y in below:
            if rng.random() < 0.15:
                ops.append(['add_dep', 0, x, y])
    if rng.random() < 0.3:
        ops.append(['copy', 0])
    ops.append(['dump', 0])
    ops.append(['graft', 0, NB + 1] if rng.random() < 0.5 else ['flatten', 0, rng.random() < 0.7])
    ops.append(['dump', 0])
    for x in above + below + sub:
        ops += [['deps', 0, x], ['dependees', 0, x]]
    ops += [['initial', 0], ['terminal', 0], ['topo', 0], ['dump', 1]]
    return {'ops': ops}


def gen_twins(rng):
    """two different nested graphs that compare equal (both empty, or one the copy of the other) stand in the same graph:
    nodes are told apart by identity, the questions about one are not answered with the other"""
    ops = [['new', 0], ['new', 1]]
    content = rng.choice([[], [], [[10, 11]], [[10, 11], [11, 12]]])
    for a, b in content:
        ops.append(['add_dep', 1, a, b])
    ops.append(['copy', 1] if content or rng.random() < 0.5 else ['new', 2])      # variable 2: the twin
    first, twin = (NB + 1, NB + 2) if rng.random() < 0.5 else (NB + 2, NB + 1)
    ops += [['add_dep', 0, 0, 1], ['add_dep', 0, 1, first], ['add_node', 0, twin]]
    if rng.random() < 0.5:
        ops.append(['add_dep', 0, twin, 2])
    for x, y in [(0, first), (0, twin), (1, twin), (1, first), (twin, first), (first, twin)]:
        ops.append(['depends', 0, x, y, True])
        ops.append(['depends', 0, x, y, False])
    for x in (first, twin, 0, 1):
        ops += [['deps', 0, x], ['dependees', 0, x], ['deps_rec', 0, x], ['contains', 0, x]]
    ops += [['initial', 0], ['terminal', 0], ['dump', 0]]
    return {'ops': ops}


def gen(rng, tier, run):
    r = rng.random()
    if r < 0.25:
        return gen_dag(rng)
    if r < 0.29:
        return gen_twins(rng)
    if r < 0.37:
        return gen_graft(rng)
    spec = Spec()
    ops = []
    nplain = rng.choice([2, 3, 4, 5, 7])
    use_nested = rng.random() < 0.45

    def emit(op):
        ops.append(op)
        spec.apply(op)

    emit(['new', 0])
    if rng.random() < 0.7:
        emit(['new', 1])
    for _ in range(rng.choice([0, 2, 4, 8])):
        v = rng.randrange(len(spec.vars))
        emit(['add_dep', v, rng.randrange(nplain), rng.randrange(nplain)])
    if use_nested and len(spec.vars) > 1:
        for _ in range(rng.randrange(1, 4)):
            emit(['add_dep', 1, NB if rng.random() < 0.6 else rng.randrange(nplain),
                  NB if rng.random() < 0.3 else rng.randrange(nplain)])
    nops = rng.choice([3, 8, 15, 30]) if tier == 'quick' else rng.choice([3, 8, 15, 30, 45])
    for _ in range(rng.randrange(1, nops + 1)):
        nv = len(spec.vars)
        v = rng.randrange(nv)
        nodes, edges = spec.vars[v]

        def pick_node(present_bias=0.8):
            if nodes and rng.random() < present_bias:
                return rng.choice(sorted(nodes))
            if use_nested and rng.random() < 0.5 and v > 0:
                w = rng.randrange(v)   # only lower variables can be nested: no cyclic nesting
                if all(n < NB + v for n in nested_ids(spec, w)):
                    return NB + w
            return rng.randrange(nplain)
        r = rng.random()
        if r < 0.05 and nv < 6:
            emit(['new', nv])
        elif r < 0.12 and nv < 6:
            emit(['copy', v])
        elif r < 0.17 and nv < 6:
            emit(['invert', v])
        elif r < 0.22 and nv < 6:
            emit(['add', v, rng.randrange(nv)])
        elif r < 0.30:
            w = rng.randrange(nv)
            if all(n - NB < v for n in nested_ids(spec, w)):
                emit(['merge', v, w])
        elif r < 0.40:
            emit(['add_node', v, pick_node(0.2)])
        elif r < 0.52:
            emit(['remove_node', v, pick_node(0.9)])
        elif r < 0.78:
            emit(['add_dep', v, pick_node(0.6), pick_node(0.6)])
        elif r < 0.86:
            if edges and rng.random() < 0.8:
                a, b = rng.choice(sorted(edges))
                emit(['remove_dep', v, a, b])
            else:
                emit(['remove_dep', v, pick_node(), pick_node()])
        elif r < 0.89:
            if acyclic(nodes, edges):
                for x in sorted(nodes)[:3]:
                    ops.append(['dependees', v, x])
                emit([rng.choice(['reduce', 'close']), v])
                for x in sorted(nodes)[:3]:
                    ops.append(['dependees', v, x])
                    ops.append(['deps', v, x])
        elif r < 0.97:
            cands = [w for w in range(nv) if nested_ids(spec, w)]
            if cands:
                v = rng.choice(cands)
            nest = sorted(nested_ids(spec, v))
            try:
                en, ee = expand(spec.vars, v)
                ok = acyclic(en | {p for e in ee for p in e}, ee)
            except RecursionError:
                ok = False
            if nest and ok:
                if rng.random() < 0.5:
                    op = ['graft', v, rng.choice(nest)]
                else:
                    op = ['flatten', v, rng.random() < 0.7]
                ops.append(op)
                apply_graft_spec(spec, op)
        else:
            emit(['dump', v])
    # queries on every variable
    for v in range(len(spec.vars)):
        nodes, edges = spec.vars[v]
        plain = all(n < NB for n in nodes)
        ops.append(['dump', v])
        ops.append(['len', v])
        for x in sorted(nodes)[:4] + [rng.randrange(nplain)]:
            ops.append(['deps', v, x])
            ops.append(['dependees', v, x])
            ops.append(['deps_rec', v, x])
            ops.append(['contains', v, x])
        ops.append(['initial', v])
        ops.append(['terminal', v])
        if plain:
            ops.append(['topo', v])
            w = rng.randrange(len(spec.vars))
            if all(n < NB for n in spec.vars[w][0]):
                ops.append(['le', v, w])
                ops.append(['eq', v, w])
        if nodes:
            x, y = rng.choice(sorted(nodes)), rng.choice(sorted(nodes))
            ops.append(['depends', v, x, y, False])
            ops.append(['depends', v, x, y, True])      # on cyclic graphs too: the search must come back
    return {'ops': ops}


def apply_graft_spec(spec, op):
    """abstract effect of graft/flatten on the node set only is not simple to state (merge of the nested
    content); the spec variable is recomputed from the all-to-all expansion *ordering* in the oracle.
    Here we only keep the shadow variable usable for the generator: replay the code's algorithm on sets."""
    v = op[1]

    def graft(x):
        nodes, edges = spec.vars[v]
        sn, se = spec.vars[x - NB]
        deps = {b for a, b in edges if a == x}
        dependees = {a for a, b in edges if b == x}
        nodes.discard(x)
        edges = {(a, b) for a, b in edges if x not in (a, b)}
        inits = {n for n in sn if not any(b == n for _, b in se)}
        terms = {n for n in sn if not any(a == n for a, _ in se)}
        nodes |= sn
        edges |= se
        edges |= {(t, d) for d in deps for t in terms}
        edges |= {(d, i) for d in dependees for i in inits}
        if not sn:
            edges |= {(d, e) for d in dependees for e in deps}
        nodes |= {p for e in edges for p in e}
        spec.vars[v] = (nodes, edges)
    if op[0] == 'graft':
        if op[2] in spec.vars[v][0]:
            graft(op[2])
        return
    rounds = 0
    nest = [x for x in spec.vars[v][0] if x >= NB]
    while nest and rounds < 10:
        for x in sorted(nest):
            if x in spec.vars[v][0]:
                graft(x)
        if not op[2]:
            break
        nest = [x for x in spec.vars[v][0] if x >= NB]
        rounds += 1


def all_digraphs(n):
    pairs = [(a, b) for a in range(n) for b in range(n) if a != b]
    for mask in range(1 << len(pairs)):
        yield [p for i, p in enumerate(pairs) if mask >> i & 1]


def exhaustive(tier, run):
    if tier != 'thorough':
        return
    run.extra['exhaustive'] = True
    run.extra['exhaustive_scope'] = 'every digraph without self-loops on <= 4 nodes x every single editing operation and query; every forward DAG on 5 nodes (two insertion orders) x reduction and closure'
    for n in range(0, 5):
        for edges in all_digraphs(n):
            build = [['new', 0]] + [['add_node', 0, i] for i in range(n)] + [['add_dep', 0, a, b] for a, b in edges]
            ac = acyclic(set(range(n)), set(edges))
            ops = list(build)
            # single operations, each on a fresh copy (SSA variables)
            nv = 1
            singles = [['remove_node', x] for x in range(n)] + [['add_node', n]] + \
                      [['add_dep', a, b] for a in range(n + 1) for b in range(n + 1) if a != b and a + b >= n] + \
                      [['remove_dep', a, b] for a, b in edges[:3]] + [['remove_dep', 0, n]]
            if ac:
                singles += [['reduce'], ['close']]
            for s in singles:
                ops.append(['copy', 0])
                ops.append([s[0], nv] + s[1:])
                ops.append(['dump', nv])
                if ac and s[0] in ('reduce', 'close'):
                    pass
                ops.append(['topo', nv])
                nv += 1
            ops.append(['invert', 0])
            ops.append(['dump', nv])
            ops.append(['eq', 0, nv])
            ops.append(['le', 0, nv])
            for x in range(n):
                ops += [['deps', 0, x], ['dependees', 0, x], ['deps_rec', 0, x]]
            ops += [['initial', 0], ['terminal', 0], ['topo', 0], ['dump', 0]]
            yield {'ops': ops}
    # every acyclic graph on 5 nodes numbered in a topological order, inserted forwards and backwards: reduction, closure
    pairs = [(a, b) for a in range(5) for b in range(a + 1, 5)]
    for mask in range(1 << len(pairs)):
        edges = [p for i, p in enumerate(pairs) if mask >> i & 1]
        for seq in (edges, edges[::-1]):
            ops = [['new', 0]] + [['add_dep', 0, a, b] for a, b in seq] + [['add_node', 0, x] for x in range(5)]
            ops += [['copy', 0], ['reduce', 1], ['dump', 1], ['copy', 0], ['close', 2], ['dump', 2]]
            yield {'ops': ops}


def shrink(case):
    ops = case['ops']
    # dropping an op is only valid when variable numbering is preserved: drop non-creating ops only
    for i in range(len(ops) - 1, -1, -1):
        if ops[i][0] not in ('new', 'copy', 'invert', 'add'):
            yield dict(case, ops=ops[:i] + ops[i + 1:])


# ------------------------------------------------------------------------------------------------
# implementation
# ------------------------------------------------------------------------------------------------

def run_impl(case, run):
    from valjean.cosette.depgraph import DepGraph, DepGraphError
    plain = {}
    gvars = []

    def obj(x):
        if x >= NB:
            return gvars[x - NB]
        if case.get('intnodes') == 'equal':
            if x not in plain:
                plain[x] = tuple([x // 2])      # a new object each time: nodes 2k and 2k+1 compare equal, are not identical
            return plain[x]
        if case.get('intnodes'):
            return 7 * x + 3 if case['intnodes'] == 'affine' else (len(case['ops']) + 5 - x if case['intnodes'] == 'rev' else x)
        if x not in plain:
            plain[x] = Node(x)
        return plain[x]

    def nid(o):
        if isinstance(o, DepGraph):
            return NB + next(i for i, g in enumerate(gvars) if g is o)
        if case.get('intnodes') == 'equal':
            return next(x for x, p in plain.items() if p is o)
        if case.get('intnodes'):
            return (o - 3) // 7 if case['intnodes'] == 'affine' else (len(case['ops']) + 5 - o if case['intnodes'] == 'rev' else o)
        return o.k

    def dump(g):
        nodes = sorted(nid(n) for n in g.nodes())
        edges = sorted([nid(n), nid(d)] for n in g.nodes() for d in g.dependencies(n))
        return {'nodes': nodes, 'edges': edges}

    outs = []
    for op in case['ops']:
        name = op[0]
        try:
            if name == 'new':
                gvars.append(DepGraph())
                out = 'ok'
            elif name == 'copy':
                gvars.append(gvars[op[1]].copy())
                out = 'ok'
            elif name == 'invert':
                gvars.append(gvars[op[1]].invert())
                out = 'ok'
            elif name == 'add':
                gvars.append(gvars[op[1]] + gvars[op[2]])
                out = 'ok'
            else:
                g = gvars[op[1]]
                out = 'ok'
                if name == 'add_node':
                    g.add_node(obj(op[2]))
                elif name == 'remove_node':
                    g.remove_node(obj(op[2]))
                elif name == 'add_dep':
                    g.add_dependency(obj(op[2]), on=obj(op[3]))
                elif name == 'remove_dep':
                    g.remove_dependency(obj(op[2]), on=obj(op[3]))
                elif name == 'merge':
                    g.merge(gvars[op[2]])
                elif name == 'reduce':
                    g.transitive_reduction()
                elif name == 'close':
                    g.transitive_closure()
                elif name == 'graft':
                    g.graft(obj(op[2]))
                elif name == 'flatten':
                    g.flatten(recurse=op[2])
                elif name == 'dump':
                    out = dump(g)
                elif name == 'len':
                    out = len(g)
                elif name == 'contains':
                    out = obj(op[2]) in g
                elif name == 'deps':
                    out = sorted(nid(n) for n in g.dependencies(obj(op[2])))
                elif name == 'deps_rec':
                    out = sorted(nid(n) for n in g.dependencies(obj(op[2]), recurse=True))
                elif name == 'dependees':
                    out = sorted(nid(n) for n in g.dependees(obj(op[2])))
                elif name == 'initial':
                    out = sorted(nid(n) for n in g.initial())
                elif name == 'terminal':
                    out = sorted(nid(n) for n in g.terminal())
                elif name == 'topo':
                    out = {'order': [nid(n) for n in g.topological_sort()]}
                elif name == 'depends':
                    # at most one wave per node: 12 lines per wave is generous for any reasonable loop body
                    out = cpu_limited(lambda: bool(g.depends(obj(op[2]), obj(op[3]), recurse=op[4])),
                                      code_name='depends', max_lines=12 * (len(g) + 2) + 20)
                elif name == 'le':
                    out = bool(g <= gvars[op[2]])
                elif name == 'eq':
                    out = bool(g == gvars[op[2]])
                else:
                    raise ValueError(name)
        except DepGraphError:
            out = {'err': 'DepGraphError'}
        except (ValueError, KeyError, IndexError, TypeError, RecursionError, AttributeError) as exc:
            out = {'err': type(exc).__name__}
        if name in ('new', 'copy', 'invert', 'add') and out != 'ok':
            gvars.append(DepGraph())
        outs.append(out)
    final = []
    for g in gvars:
        try:
            final.append(dump(g))
        except Exception as exc:  # pylint: disable=broad-except
            final.append({'err': type(exc).__name__})
    return {'outs': outs, 'final': final}


def run_model(case, driver, run):
    return driver.ask('depgraph', {'ops': case['ops']})


def compare(case, impl, model):
    from vcheck.runner import first_diff
    if '!driver-error' in model:
        return f"driver error {model['!driver-error']}"

    def canon(obs):
        outs = []
        for op, out in zip(case['ops'], obs['outs']):
            if op[0] == 'topo' and isinstance(out, dict) and 'order' in out:
                out = {'order': sorted(out['order'])}
            outs.append(out)
        return {'outs': outs, 'final': obs['final']}
    return first_diff(canon(impl), canon(model))


# ------------------------------------------------------------------------------------------------
# oracle
# ------------------------------------------------------------------------------------------------

def oracle(case, impl, run):
    fails = []
    spec = Spec()
    nontriv = False
    for i, (op, out) in enumerate(zip(case['ops'], impl['outs'])):
        run.count('op:' + op[0])
        name = op[0]
        if name in ('graft', 'flatten'):
            v = op[1]
            store = dict(enumerate(spec.vars))
            if name == 'graft' and op[2] not in spec.vars[v][0]:
                if out != {'err': 'ValueError'}:
                    fails.append(('graft_absent_node', f'op#{i} {op}: {out}'))
                continue
            try:
                before_nodes, before_edges = expand(store, v)
                ok = acyclic(before_nodes | {p for e in before_edges for p in e}, before_edges)
            except (RecursionError, IndexError, KeyError):
                ok = False
            if not ok:   # outside the property's quantifier (cyclic expansion): follow the implementation
                got = impl_dump_after(case, impl, i, v, run)
                if got is not None:
                    spec.vars[v] = (set(got['nodes']), {tuple(e) for e in got['edges']})
                continue
            order_before = plain_order(before_nodes, before_edges)
            nested_before = {x: (set(spec.vars[x - NB][0]), set(spec.vars[x - NB][1])) for x in range(NB, NB + len(spec.vars))}
            apply_graft_spec(spec, op)
            if out != 'ok':
                fails.append(('graft_order_preserved', f'op#{i} {op} raised {out}'))
                continue
            got = impl_dump_after(case, impl, i, v, run)
            if got is None:
                continue
            store_after = {j: s for j, s in enumerate(spec.vars)}
            store_after[v] = (set(got['nodes']), {tuple(e) for e in got['edges']})
            try:
                an, ae = expand(store_after, v)
            except (RecursionError, IndexError, KeyError):
                fails.append(('graft_order_preserved', f'op#{i} {op}: result not expandable {got}'))
                continue
            order_after = plain_order(an, ae)
            if an != before_nodes or order_after != order_before:
                fails.append(('graft_order_preserved',
                              f'op#{i} {op}: plain nodes {sorted(before_nodes)} -> {sorted(an)}; lost '
                              f'{sorted(order_before - order_after)} gained {sorted(order_after - order_before)}'[:400]))
            if name == 'graft' and op[2] in got['nodes']:
                fails.append(('graft_removes_node', f'op#{i} {op}'))
            if name == 'flatten' and op[2] and any(x >= NB for x in got['nodes']):
                fails.append(('flatten_all_plain', f'op#{i} {op}: {got["nodes"]}'))
            # shadow := what the implementation produced (later ops continue from the real state)
            spec.vars[v] = (set(got['nodes']), {tuple(e) for e in got['edges']})
            nontriv = True
            continue
        exp = spec.apply(op)
        if isinstance(exp, tuple) and exp[0] == 'topo':
            nodes, edges = spec.vars[op[1]]
            if any(n >= NB for n in nodes):
                continue
            if exp[1]:
                if not (isinstance(out, dict) and 'order' in out):
                    fails.append(('topo_sound', f'op#{i}: acyclic graph but {out}'))
                else:
                    order = out['order']
                    pos = {x: k for k, x in enumerate(order)}
                    if sorted(order) != sorted(nodes):
                        fails.append(('topo_sound', f'op#{i}: not a permutation: {order} vs {sorted(nodes)}'))
                    elif any(pos[b] > pos[a] for a, b in edges):
                        fails.append(('topo_sound', f'op#{i}: dependency after dependent: {order} edges {sorted(edges)}'))
            elif out != {'err': 'DepGraphError'}:
                fails.append(('topo_raises_iff_cyclic', f'op#{i}: cyclic graph but {out}'))
            continue
        if out != exp:
            clause = {'dump': 'refines', 'deps': 'refines', 'dependees': 'refines', 'len': 'refines', 'contains': 'refines',
                      'deps_rec': 'closure_reach', 'initial': 'refines', 'terminal': 'refines', 'reduce': 'reduction',
                      'close': 'closure_reach', 'le': 'refines', 'eq': 'refines', 'depends': 'refines'}.get(name, 'refines')
            fails.append((clause, f'op#{i} {op}: impl {out!r} spec {exp!r}'[:400]))
        if name in ('remove_node', 'merge', 'invert', 'add', 'reduce', 'close') :
            nodes, edges = spec.vars[op[1]] if name not in ('invert', 'add') else spec.vars[-1]
            if len(nodes) >= 3 and len(edges) >= 2:
                nontriv = True
    for v, (got, (nodes, edges)) in enumerate(zip(impl['final'], spec.vars)):
        exp = {'nodes': sorted(nodes), 'edges': sorted([a, b] for a, b in edges)}
        if got != exp:
            fails.append(('independent_copies', f'final state of variable {v}: impl {got} spec {exp}'[:400]))
    impl['_nontrivial'] = nontriv
    return fails[:5]


def impl_dump_after(case, impl, i, v, run):
    """state of variable v right after op #i: re-run the prefix and dump (cheap: histories are short)."""
    sub = {'ops': case['ops'][:i + 1] + [['dump', v]]}
    res = run_impl(sub, run)
    out = res['outs'][-1]
    return out if isinstance(out, dict) and 'nodes' in out else None


def nontrivial(case, impl):
    return case if impl.get('_nontrivial') else None


def signature(case, clause, detail):
    return clause
