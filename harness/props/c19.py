"""C19 — a failing command is never reported as done and its output is captured intact
(valjean/cosette/run.py run/RunTask, valjean/path.py sanitize_filename)."""
import os
import shlex
import shutil
import tempfile

PROPERTY = 'C19'
THEOREMS = ['RunCmd.done_iff_all_zero', 'RunCmd.codes_are_prefix', 'RunCmd.not_run_after_failure',
            'RunCmd.spawn_error_fails_task_not_run', 'RunCmd.output_in_order', 'RunCmd.outdir_injective',
            'RunCmd.bad_name_fails_task', 'RunCmd.status_total', 'RunCmd.build_eq_run', 'RunCmd.build_done_iff']
BUDGET = {'quick': 600, 'thorough': 8000}
TIME_LIMIT = {'quick': 50, 'thorough': 600}
RULE = ('RunTask with 0-5 real command lines (/bin/sh -c printf to both streams, exit k in 0..255 or death by a signal; '
        'sometimes programs found only through the PATH given to the task as subprocess argument), missing and '
        'non-executable programs at any position, task names with spaces, unicode, "/", NUL, ".", ".."; run through '
        'RunTask.do and (1 in 3) through the real Scheduler; 30% of the do() cases executed twice in the same output root '
        '(the second run is the one read; some commands fail only during the first execution); outputs with carriage returns '
        'and with bytes that are not UTF-8, compared byte for byte; two tasks per case to check directory ownership; '
        'non-trivial = a failure (non-zero exit, spawn error or bad name) occurs, or >= 2 commands succeed; '
        'distinct = case hash')
CORRESPONDS = ('Model/RunCmd.lean (runLoop, run, sanitize, runTask, finalStatus, buildSys) vs valjean.cosette.run.run/RunTask + '
               'Scheduler worker, valjean.cosette.code.BuildTask')
TRUSTED = ['harness/props/c19.py (generator, scripted commands, oracle)', 'vjdriver (compiled Model/RunCmd.lean)',
           'shlex.quote for the echoed command line (passed to the model as data)']
ASSUMPTIONS = ['process spawning and file-descriptor inheritance by subprocess.call (commands write straight to the '
               'captured files; valjean flushes its own echo line before each spawn)',
               'scripted commands are deterministic']

NAMES = ['', 'task', 'task ', ' task', 'my task', '.. ', ' ', 'tâche-é', 'a.b', '..x', 'x/y', '/abs', 'nul\x00char', '.', '..', 'a' * 40, 'T', ' lead', 'x\ny']
TOKENS = ['out', 'E', 'spam and eggs', 'x' * 50, '', 'ü', 'line1\\nline2', '%%']


def gen_cli(rng, allow_spawn_error=True):
    r = rng.random()
    if allow_spawn_error and r < 0.07:
        return {'kind': 'missing'}
    if allow_spawn_error and r < 0.12:
        return {'kind': 'noexec'}
    code = 0 if rng.random() < 0.7 else rng.choice([1, 2, 3, 127, 255, 42, -9, -15, -2])   # negative: killed by a signal
    cli = {'kind': 'sh', 'out': rng.choice(TOKENS) + str(rng.randrange(10)), 'err': rng.choice(TOKENS), 'code': code,
           'order': rng.random() < 0.5}
    r = rng.random()
    if r < 0.08:       # carriage returns: the captured files hold what the command wrote, byte for byte
        cli['out'] = rng.choice(['a\r\nb', 'p\rq', '\r', 'x\r\n']) + str(rng.randrange(10))
        cli['err'] = rng.choice(['e\r\n', 'w\rz', ''])
    elif r < 0.16:     # bytes that are not UTF-8 (binary output, another encoding)
        cli['outraw'] = rng.choice([[0xff, 0xfe, 0x41], [0xe9, 0x74, 0xe9], [0x80], [0x41, 0xc3]])
        if rng.random() < 0.5:
            cli['errraw'] = rng.choice([[0xc0, 0x0a], [0xa0]])
    return cli


def raw_text(raw):
    """how non-UTF-8 bytes are shown to the model and in reports"""
    return show_bytes(bytes(raw))


def show_bytes(data):
    # byte by byte (one character per byte), so that the rendering of a concatenation is the concatenation of the renderings
    return data.decode('latin-1')


def out_text(cli, which):
    return raw_text(cli[which + 'raw']) if which + 'raw' in cli else show_bytes(cli[which].encode('utf-8'))


def read_captured(path):
    """the captured file as text without any newline translation; one character per byte"""
    with open(path, 'rb') as fobj:
        return show_bytes(fobj.read())


def gen_task(rng):
    all_ok = rng.random() < 0.35
    # (a task without any command - nothing needs doing - is DONE)
    clis = [gen_cli(rng, not all_ok) for _ in range(rng.randrange(1, 6) if rng.random() < 0.93 else 0)]
    if all_ok:
        for c in clis:
            c['code'] = 0
    name = rng.choice(NAMES) if rng.random() < 0.5 else f'task{rng.randrange(4)}'
    # some commands are programs found only through the PATH handed to the task (subprocess argument `env`)
    if rng.random() < 0.25:
        for i, c in enumerate(clis):
            if c['kind'] == 'sh' and rng.random() < 0.6:
                c['tool'] = f'tool{rng.randrange(1000)}_{i}'
    return {'name': name, 'clis': clis}


def gen_build(rng):
    """a BuildTask (valjean/cosette/code.py) whose `cmake` is a scripted stand-in: the configure step exits with
    `configure`, a build step exits with the number carried by the first `bad<k>` target it is asked for"""
    targets = rng.sample(['ok1', 'ok2', 'ok3', 'bad3', 'bad1', 'bad7'], rng.randrange(0, 4))
    if rng.random() < 0.5:
        targets = [t for t in targets if t.startswith('ok')]
    return {'build': {'name': rng.choice(['build', 'my build', 'b.1']), 'configure': 0 if rng.random() < 0.8 else rng.choice([1, 2]),
                      'targets': targets if targets or rng.random() < 0.5 else None,
                      'configure_flags': rng.choice([None, ['-DX=1']]), 'build_flags': rng.choice([None, ['--', '-j2']])}}


def gen(rng, tier, run):
    if rng.random() < 0.1:
        return gen_build(rng)
    tasks = [gen_task(rng), gen_task(rng)]
    if tasks[0]['name'] == tasks[1]['name']:
        tasks[1]['name'] += '_2'
    case = {'tasks': tasks, 'scheduler': rng.random() < 0.34}
    if not case['scheduler'] and rng.random() < 0.3:
        case['rerun'] = True      # the tasks are executed a second time in the same output root: what is read is the second run
        if rng.random() < 0.6:
            # a command whose outcome depends on the outside world: it exits with `code1` during the first execution
            # (a file it needs is missing) and with `code` during the second one
            task = rng.choice(tasks)
            shs = [c for c in task['clis'] if c['kind'] == 'sh' and 'tool' not in c]
            if shs:
                rng.choice(shs)['code1'] = rng.choice([1, 2, 7])
    return case


def shrink(case):
    if 'build' in case:
        tg = case['build']['targets'] or []
        for i in range(len(tg)):
            yield {'build': dict(case['build'], targets=tg[:i] + tg[i + 1:])}
        return
    for ti, task in enumerate(case['tasks']):
        for i in range(len(task['clis'])):
            if len(task['clis']) > 1:
                new = [dict(t) for t in case['tasks']]
                new[ti]['clis'] = task['clis'][:i] + task['clis'][i + 1:]
                yield dict(case, tasks=new)
    if case['scheduler']:
        yield dict(case, scheduler=False)


def real_cli(cli, scratch):
    if cli['kind'] == 'missing':
        return [os.path.join(scratch, 'no-such-program'), 'arg']
    if cli['kind'] == 'noexec':
        return [os.path.join(scratch, 'not-executable'), 'arg']
    if cli.get('tool'):
        return [cli['tool']]
    return ['/bin/sh', '-c', sh_body(cli, scratch)]


def sh_printf(cli, which):
    if which + 'raw' in cli:
        return "printf '" + ''.join('\\%03o' % b for b in cli[which + 'raw']) + "'"
    return f"printf '%s' {shlex.quote(cli[which])}"


def sh_body(cli, scratch=''):
    out = sh_printf(cli, 'out')
    err = sh_printf(cli, 'err') + ' >&2'
    body = f'{out}; {err}' if cli['order'] else f'{err}; {out}'
    if 'code1' in cli:
        body = f"{body}; test -e {scratch}/flag || exit {cli['code1']}"
    if cli['code'] < 0:
        return f"{body}; kill -{-cli['code']} $$"
    return f"{body}; exit {cli['code']}"


STUB_CMAKE = '''#!/bin/sh
# stand-in for cmake: journals the call, writes to both streams, exits as scripted by its arguments
printf '%s\\n' "$*" >> "$C19_JOURNAL"
echo "cmake-out $*"
echo "cmake-err $*" >&2
code=0
build=no
for a in "$@"; do
  case "$a" in
    --build) build=yes ;;
    bad*) if [ "$code" = 0 ]; then code="${a#bad}"; fi ;;
  esac
done
if [ "$build" = no ]; then code="$C19_CONFIGURE"; fi
printf '%s\\n' "exit $code" >> "$C19_JOURNAL"
exit "$code"
'''


def run_build(case):
    from valjean.config import Config
    from valjean.cosette.code import BuildTask
    spec = case['build']
    scratch = tempfile.mkdtemp(prefix='c19b_')
    saved = BuildTask.CMAKE
    saved_env = {k: os.environ.get(k) for k in ('C19_JOURNAL', 'C19_CONFIGURE')}
    obs = {}
    try:
        stub = os.path.join(scratch, 'cmake-stub')
        with open(stub, 'w', encoding='utf-8') as fobj:
            fobj.write(STUB_CMAKE)
        os.chmod(stub, 0o755)
        journal = os.path.join(scratch, 'journal')
        os.environ['C19_JOURNAL'] = journal
        os.environ['C19_CONFIGURE'] = str(spec['configure'])
        BuildTask.CMAKE = stub
        src = os.path.join(scratch, 'src')
        os.makedirs(src)
        config = Config({'path': {'output-root': os.path.join(scratch, 'out'), 'log-root': os.path.join(scratch, 'log')}})
        task = BuildTask(spec['name'], src, targets=None if spec['targets'] is None else list(spec['targets']),
                         configure_flags=spec['configure_flags'], build_flags=spec['build_flags'])
        try:
            env_up, status = task.do(env={}, config=config)
            obs['status'] = status.name
            with open(env_up[spec['name']]['build_log'], encoding='utf-8') as fobj:
                obs['log'] = fobj.read()
        except Exception as exc:  # pylint: disable=broad-except
            obs['raised'] = f'{type(exc).__name__}: {exc}'[:200]
        calls = []
        if os.path.exists(journal):
            with open(journal, encoding='utf-8') as fobj:
                lines = fobj.read().split('\n')
            for args, code in zip(lines[0::2], lines[1::2]):
                calls.append([args.replace(scratch, '<scratch>'), int(code.split()[1])])
        obs['calls'] = calls
    finally:
        BuildTask.CMAKE = saved
        for key, val in saved_env.items():
            if val is None:
                os.environ.pop(key, None)
            else:
                os.environ[key] = val
        shutil.rmtree(scratch, ignore_errors=True)
    return {'build': obs}


def run_impl(case, run):
    if 'build' in case:
        return run_build(case)
    from valjean.config import Config
    from valjean.cosette.run import RunTask
    from valjean.cosette.task import TaskStatus
    scratch = tempfile.mkdtemp(prefix='c19_')
    outs = []
    try:
        with open(os.path.join(scratch, 'not-executable'), 'w', encoding='utf-8') as fobj:
            fobj.write('echo no\n')
        root = os.path.join(scratch, 'out')
        config = Config({'path': {'output-root': root}})
        tasks = []
        bindir = os.path.join(scratch, 'bin')
        os.makedirs(bindir)
        for spec in case['tasks']:
            clis = [real_cli(c, scratch) for c in spec['clis']]
            kwargs = {}
            for c in spec['clis']:
                if c.get('tool'):
                    path = os.path.join(bindir, c['tool'])
                    with open(path, 'w', encoding='utf-8') as fobj:
                        fobj.write('#!/bin/sh\n' + sh_body(c) + '\n')
                    os.chmod(path, 0o755)
                    kwargs['env'] = dict(os.environ, PATH=bindir + os.pathsep + os.environ.get('PATH', '/bin:/usr/bin'))
            tasks.append(RunTask.from_clis(spec['name'], clis, **kwargs))
        if case.get('rerun'):
            for task in tasks:
                try:
                    task.do(env={}, config=config)
                except Exception:  # pylint: disable=broad-except
                    pass
            with open(os.path.join(scratch, 'flag'), 'w', encoding='utf-8'):
                pass
        if case['scheduler']:
            from valjean.cosette.depgraph import DepGraph
            from valjean.cosette.scheduler import Scheduler
            from valjean.cosette.backends.queue import QueueScheduling
            graph = DepGraph.from_dependency_dictionary({t: [] for t in tasks})
            try:
                env = Scheduler(hard_graph=graph, backend=QueueScheduling(n_workers=1)).schedule(config=config)
                sched_err = None
            except Exception as exc:  # pylint: disable=broad-except
                env, sched_err = {}, f'{type(exc).__name__}: {exc}'[:200]
        for spec, task in zip(case['tasks'], tasks):
            obs = {}
            if case['scheduler']:
                if sched_err:
                    obs = {'run_raised': sched_err}
                    outs.append(obs)
                    continue
                sub = env.get(spec['name'], {})
                status = sub.get('status')
                obs['status'] = None if status is None else status.name
                obs['raised'] = 'return_codes' not in sub
            else:
                try:
                    env_up, status = task.do(env={}, config=config)
                    sub = env_up[spec['name']]
                    obs['status'] = status.name
                    obs['raised'] = False
                except Exception as exc:  # pylint: disable=broad-except
                    sub = {}
                    obs['status'] = 'FAILED'    # what the scheduler's worker records for a raising task
                    obs['raised'] = True
                    obs['exc'] = type(exc).__name__
            if not obs['raised']:
                obs['codes'] = list(sub['return_codes'])
                obs['dir'] = os.path.relpath(sub['output_dir'], root)
                obs['stdout'] = read_captured(sub['stdout'])
                obs['stderr'] = read_captured(sub['stderr'])
                obs['files_in_dir'] = (os.path.dirname(sub['stdout']) == os.path.realpath(sub['output_dir'])
                                       and os.path.dirname(sub['stderr']) == os.path.realpath(sub['output_dir']))
            outs.append(obs)
    finally:
        shutil.rmtree(scratch, ignore_errors=True)
    return {'tasks': outs}


def echo_line(cli, scratch='<scratch>'):
    return '$ ' + ' '.join(shlex.quote(tok) for tok in real_cli(cli, scratch)) + '\n'


def run_model(case, driver, run):
    if 'build' in case:
        # the build as a list of commands for the model of `run`: configure, then the build step (one command for all the
        # targets); each exits as the stand-in is scripted to
        spec = case['build']
        bad = [int(t[3:]) for t in (spec['targets'] or []) if t.startswith('bad')]
        clis = [{'echo': 'configure', 'res': [spec['configure'], '', '']},
                {'echo': 'build', 'res': [bad[0] if bad else 0, '', '']}]
        return {'build': driver.ask('runcmd', {'name': 'build', 'clis': clis})}
    outs = []
    for spec in case['tasks']:
        clis = []
        for c in spec['clis']:
            res = None if c['kind'] != 'sh' else [c['code'], out_text(c, 'out'), out_text(c, 'err')]
            clis.append({'echo': show_bytes(echo_line(c).encode('utf-8')), 'res': res})
        outs.append(driver.ask('runcmd', {'name': spec['name'], 'clis': clis}))
    return {'tasks': outs}


def canon_impl(case, impl):
    outs = []
    for obs in impl['tasks']:
        new = {k: v for k, v in obs.items() if k in ('status', 'raised', 'codes', 'dir', 'stdout', 'stderr')}
        if 'stderr' in new:   # the scratch directory appears in the echoed path of missing programs
            import re
            new['stderr'] = re.sub(r'/tmp/c19_[^/ ]+', '<scratch>', new['stderr'])
        outs.append(new)
    return {'tasks': outs}


def compare(case, impl, model):
    from vcheck.runner import first_diff
    if 'build' in case:
        obs, mod = impl['build'], model['build']
        if 'raised' in obs:
            return None     # oracle
        got = {'status': obs['status'], 'codes': [c for _, c in obs['calls']]}
        return first_diff(got, {'status': mod['status'], 'codes': mod['codes']})
    if any('run_raised' in o for o in impl['tasks']):
        return None   # reported by the oracle
    return first_diff(canon_impl(case, impl), model)


def oracle_build(case, impl, run):
    spec, obs = case['build'], impl['build']
    run.count('via:BuildTask')
    run.count(f"targets={len(spec['targets'] or [])}")
    impl['_nontrivial'] = True
    if 'raised' in obs:
        return [('status_total', f"the build task raised {obs['raised']}")]
    fails = []
    codes = [c for _, c in obs['calls']]
    if (obs['status'] == 'DONE') != all(c == 0 for c in codes) or not codes:
        fails.append(('done_iff_all_zero', f"status {obs['status']} with the commands {obs['calls']}"))
    first_bad = next((i for i, c in enumerate(codes) if c != 0), None)
    if first_bad is not None and first_bad != len(codes) - 1:
        fails.append(('not_run_after_failure', f'commands were run after the one that failed: {obs["calls"]}'))
    if first_bad is None:
        asked = ' '.join(a for a, _ in obs['calls'][1:])
        missing = [t for t in (spec['targets'] or []) if t not in asked.split()]
        if missing or len(obs['calls']) < 2:
            fails.append(('done_iff_all_zero', f"DONE although the targets {missing} were never built: {obs['calls']}"))
    log = obs.get('log', '')
    if codes and log.count('cmake-out') != len(codes):
        fails.append(('output_in_order', f"{len(codes)} commands run, {log.count('cmake-out')} outputs captured in the log"))
    return fails


def oracle(case, impl, run):
    if 'build' in case:
        return oracle_build(case, impl, run)
    fails = []
    nontriv = False
    dirs = []
    for spec, obs in zip(case['tasks'], impl['tasks']):
        if 'run_raised' in obs:
            fails.append(('spawn_error_fails_task_not_run', f"the scheduling call raised {obs['run_raised']}"))
            continue
        clis = spec['clis']
        name = spec['name']
        bad_name = '\x00' in name or '/' in name or name in ('', '.', '..')
        # commands that are actually run: up to and including the first one that does not exit with 0
        ran = []
        spawn_error = False
        for c in clis:
            if c['kind'] != 'sh':
                spawn_error = True
                break
            ran.append(c)
            if c['code'] != 0:
                break
        run.count(f'ncli={len(clis)}')
        run.count('name:bad' if bad_name else 'name:ok')
        run.count('via:scheduler' if case['scheduler'] else 'via:do')
        if bad_name or spawn_error:
            nontriv = True
            run.count('fail:name' if bad_name else 'fail:spawn')
            if obs['status'] != 'FAILED':
                fails.append(('bad_name_fails_task' if bad_name else 'spawn_error_fails_task_not_run',
                              f"status {obs['status']} for task {name!r}"))
            continue
        all_zero = all(c['code'] == 0 for c in clis)
        if any(c['code'] != 0 for c in clis):
            nontriv = True
            run.count('fail:exit')
        elif len(clis) >= 2:
            nontriv = True
        if obs.get('raised'):
            fails.append(('status_total', f"task {name!r} raised {obs.get('exc')} although every command could be started"))
            continue
        if (obs['status'] == 'DONE') != all_zero:
            fails.append(('done_iff_all_zero', f"status {obs['status']} with exit codes {[c['code'] for c in clis]}"))
        if obs['status'] not in ('DONE', 'FAILED'):
            fails.append(('done_iff_all_zero', f"status {obs['status']}"))
        if obs['codes'] != [c['code'] for c in ran]:
            fails.append(('codes_are_prefix', f"return_codes {obs['codes']} but the commands run exit with {[c['code'] for c in ran]}"))
        if obs['stdout'] != ''.join(out_text(c, 'out') for c in ran):
            fails.append(('output_in_order', f"stdout {obs['stdout']!r} != {''.join(out_text(c, 'out') for c in ran)!r}"))
        import re
        exp_err = ''.join(show_bytes(echo_line(c).encode('utf-8')) + out_text(c, 'err') for c in ran)
        if re.sub(r'/tmp/c19_[^/ ]+', '<scratch>', obs['stderr']) != exp_err:
            fails.append(('output_in_order', f"stderr {obs['stderr']!r} != {exp_err!r}"))
        if not obs['files_in_dir']:
            fails.append(('outdir_injective', 'captured files are not in the task directory'))
        dirs.append(obs['dir'])
    if len(dirs) != len(set(dirs)):
        fails.append(('outdir_injective', f'two tasks share the directory {dirs}'))
    impl['_nontrivial'] = nontriv
    return fails


def nontrivial(case, impl):
    return case if impl.get('_nontrivial') else None


def signature(case, clause, detail):
    return clause
