"""Shared machinery of the scheduler checks C01-C04: generator, controlled runs of the real QueueScheduling backend,
replay of the recorded schedule in the Lean model, property oracles (DESIGN.md sections 4 and 5)."""
import copy

OUTCOMES = ['done', 'failedRet', 'raises', 'retNone', 'notPair', 'badStatus', 'badUpdate',
            # variants of the classes above (mapped onto them for the model, see MODEL_OUTCOME)
            'sysExit', 'retWaiting', 'retPending', 'clobberOwn', 'badUpdateEmptyList', 'badUpdateZero', 'badUpdateEmptyStr',
            'raisingIterable', 'ownReadOnly', 'doneFrozenUpdate',
            # a well-formed pair whose update cannot be merged into the environment (a nested mapping addressed to a key that
            # holds a number): the task is FAILED; the model has no such outcome - these cases are decided by the oracles only
            'unappliable']
# the model has one constructor per class of outcome; the concrete variants generated here are mapped onto their class:
# an exception that is not an `Exception` (SystemExit) is a raising task, a status that is not a final one is a bad
# status, an update that replaces the task's own entry by something that is not a mapping is a bad update
MODEL_OUTCOME = {'sysExit': 'raises', 'retWaiting': 'badStatus', 'retPending': 'badStatus', 'clobberOwn': 'badUpdate',
                 'badUpdateEmptyList': 'badUpdate', 'badUpdateZero': 'badUpdate', 'badUpdateEmptyStr': 'badUpdate',
                 # a result whose unpacking raises something else than TypeError / ValueError is not a pair; an own entry
                 # that cannot be written to (read-only mapping) cannot be recorded: a bad update
                 'raisingIterable': 'notPair', 'ownReadOnly': 'badUpdate', 'unappliable': 'badUpdate',
                 # a well-formed result whose update is a read-only mapping (any Mapping is an update): a task that is DONE
                 'doneFrozenUpdate': 'done'}
CORRESPONDS = ('Model/Sched.lean (init, step, enabled, decide, terminal) vs valjean.cosette.backends.queue.QueueScheduling + '
               'valjean.cosette.env.Env under the controlled scheduler (harness/vcheck/ctlsched.py): the recorded schedule is '
               'replayed in the model; environment, queue, counters, what every task saw when it started and the set of enabled '
               'threads must agree before every step')
TRUSTED = ['harness/vcheck/ctlsched.py (re-implementation of queue.Queue / threading.Condition / RLock / Thread.start, join '
           'semantics; baton passing)', 'harness/props/schedcommon.py (generator, probes, oracles)',
           'vjdriver (compiled Model/Sched.lean)']
ASSUMPTIONS = ['CPython queue.Queue, threading.Condition (no spurious wake-up), RLock and Thread behave as documented',
               'time.time() is replaced by a counter: reads ordered by happens-before are strictly increasing',
               'task bodies do not touch the scheduler primitives or other tasks\' entries',
               'tasks are numbered in the order of full_graph.topological_sort() (checked on every run)']


# ------------------------------------------------------------------------------------------------
# generator
# ------------------------------------------------------------------------------------------------

def gen_graph(rng, n, density):
    deps, hard = [], []
    for t in range(n):
        cand = [d for d in range(t) if rng.random() < density]
        deps.append(cand)
        hard.append([d for d in cand if rng.random() < 0.6])
    return deps, hard


def gen_round(rng, n, deps, hard, profile):
    fail_rate = rng.choice([0.0, 0.15, 0.4])
    out = []
    for _ in range(n):
        if rng.random() < fail_rate:
            out.append(rng.choice(OUTCOMES[1:]))
        else:
            out.append('done')
    rnd = {'n': n, 'deps': [list(d) for d in deps[:n]], 'hard': [list(d) for d in hard[:n]], 'out': out,
           'workers': rng.choice([1, 1, 2, 2, 3, 4, 6]), 'cyclic': False, 'lose': [], 'stale': [],
           'sched': [rng.choice(['random', 'random', 'pct']), rng.randrange(1 << 30)], 'same_backend': False,
           'twice': rng.random() < 0.4}
    if n >= 2 and rng.random() < 0.3:
        # the tasks are handed to the graphs in another order than their dependencies suggest
        rnd['insert'] = rng.sample(range(n), n) if rng.random() < 0.6 else list(range(n - 1, -1, -1))
    if n >= 3 and rng.random() < 0.12:
        add_group(rng, rnd)
    soft = [(s, d) for s in range(n) for d in rnd['deps'][s] if d not in rnd['hard'][s]]
    if soft and rng.random() < 0.12:
        # one soft dependency is expressed through an empty stage: an empty nested DepGraph (or one that holds only an
        # empty DepGraph) that stands between the two tasks, tied to one of them in the hard graph and to the other one in
        # the soft graph.  Flattened, it means what `deps` / `hard` say: the soft dependency itself
        s, d = rng.choice(soft)
        rnd['bridge'] = {'t': s, 'd': d, 'kind': rng.choice(['hs', 'sh']), 'nested': rng.random() < 0.3}
    return rnd


def group_consistent(rnd, n):
    """are `deps` / `hard` of the round the flattened meaning of its block (see add_group)?"""
    group = rnd['group']
    members, gdeps, gdependees = group['members'], group['deps'], group['dependees']
    if not members or max(members + gdeps + gdependees) >= n:
        return False
    inside = set(members)
    inner = {s: [d for d in rnd['deps'][s] if d in inside] for s in members}
    terminal = [s for s in members if not inner[s]]
    initial = [s for s in members if not any(s in inner[o] for o in members)]
    for s in members:
        outer = sorted(d for d in rnd['deps'][s] if d not in inside)
        if outer != (sorted(gdeps) if s in terminal else []) or sorted(rnd['hard'][s]) != sorted(rnd['deps'][s]):
            return False
    for t in range(n):
        if t in inside:
            continue
        cross = sorted(d for d in rnd['deps'][t] if d in inside)
        if cross != (sorted(initial) if t in gdependees else []) or any(d not in rnd['hard'][t] for d in cross):
            return False
    return True


def add_group(rng, rnd):
    """a block of tasks handed to the scheduler as one node: a nested DepGraph (hard graph) with its own dependencies and
    dependees.  The scheduler flattens it: the dependees wait for the tasks of the block nobody in the block depends on,
    the tasks of the block that depend on nothing in the block wait for the dependencies of the block.  `deps` / `hard` of
    the round are rewritten to that flattened meaning (they are what the model and the oracles use)"""
    n = rnd['n']
    a = rng.randrange(0, n - 1)
    b = min(n - 1, a + rng.randrange(0, 3))
    if b == n - 1 and a > 0 and rng.random() < 0.7:
        a, b = a - 1, b - 1                     # leave room for dependees
    members = list(range(a, b + 1))
    inside = set(members)
    gdeps = sorted(rng.sample(range(a), rng.randrange(0, min(2, a) + 1))) if a else []
    later = list(range(b + 1, n))
    gdependees = sorted(rng.sample(later, rng.randrange(0, min(3, len(later)) + 1))) if later else []
    inner = {s: [d for d in rnd['deps'][s] if d in inside] for s in members}
    terminal = [s for s in members if not inner[s]]
    initial = [s for s in members if not any(s in inner[o] for o in members)]
    for s in members:
        rnd['deps'][s] = inner[s] + (gdeps if s in terminal else [])
        rnd['hard'][s] = list(rnd['deps'][s])
    for t in range(n):
        if t in inside:
            continue
        keep = [d for d in rnd['deps'][t] if d not in inside]
        khard = [d for d in rnd['hard'][t] if d not in inside]
        if t in gdependees:
            keep += initial
            khard += initial
        rnd['deps'][t], rnd['hard'][t] = keep, khard
    rnd['group'] = {'members': members, 'deps': gdeps, 'dependees': gdependees}


def regraph(rng, rnd):
    """another graph over the same task names (the next job handed to the same backend object)"""
    deps, hard = gen_graph(rng, max(rnd['n'], 1) + 3, rng.choice([0.0, 0.3, 0.6, 0.9]))
    rnd['deps'] = [list(d) for d in deps[:rnd['n']]]
    rnd['hard'] = [list(d) for d in hard[:rnd['n']]]
    rnd.pop('group', None)


def gen(rng, tier, profile):
    """profile: 'C01' (single run, races), 'C02' (empty env, outcomes), 'C03' (cyclic, stale envs, repeated calls),
    'C04' (histories of re-runs)"""
    nmax = rng.choice([1, 2, 3, 4, 6, 8]) if tier == 'quick' else rng.choice([1, 2, 3, 4, 6, 8, 12, 20])
    n = rng.randrange(0 if profile == 'C03' else 1, nmax + 1)
    density = rng.choice([0.0, 0.2, 0.4, 0.6, 0.9])
    deps, hard = gen_graph(rng, max(n, 1) + 3, density)
    rounds = [gen_round(rng, n, deps, hard, profile)]
    if profile == 'C03':
        r = rounds[0]
        if rng.random() < 0.15:
            r['cyclic'] = True
            r['cycle_kind'] = rng.choice(['hard', 'soft', 'mixed'])
        if rng.random() < 0.4:
            for t in range(n):
                if rng.random() < 0.4:
                    r['stale'].append([t, rng.choice([3, 4, 5, 2, 1]), rng.random() < 0.5])
        for _ in range(rng.choice([0, 0, 1, 2])):
            nxt = gen_round(rng, n, deps, hard, profile)
            nxt['same_backend'] = True
            nxt['workers'] = r['workers']
            if rng.random() < 0.4:
                regraph(rng, nxt)
            rounds.append(nxt)
        if n >= 2 and not rounds[-1]['cyclic'] and rng.random() < 0.12:
            # in the last call, a task whose (well-formed) update overwrites the entry of *another* task with a number:
            # whatever the victim is doing at that time, the call must come back (returning or raising) and leave nothing
            # behind; the model has no such update, only the C03 clauses are checked on these cases
            a, b = rng.sample(range(n), 2)
            rounds[-1]['clobber'] = [a, b]
    if profile in ('C01', 'C02') and rng.random() < 0.25:
        # the backend object serves a second job: same task names, another graph, a new empty environment
        nxt = gen_round(rng, n, deps, hard, profile)
        regraph(rng, nxt)
        nxt['same_backend'] = True
        nxt['fresh_env'] = True
        nxt['workers'] = rounds[0]['workers']
        rounds.append(nxt)
    elif profile == 'C01' and rng.random() < 0.35:
        # a resumed run: some results of the first run are lost, their dependents are stale
        nxt = gen_round(rng, n, deps, hard, profile)
        nxt['lose'] = [t for t in range(n) if rng.random() < 0.3]
        rounds.append(nxt)
    if profile == 'C04':
        if rng.random() < 0.3:
            # entries left by earlier runs on a coarse clock: DONE with equal clocks (a dependency that ended at the very
            # tick its dependent started is not newer), or in any other state
            for t in range(n):
                if rng.random() < 0.6:
                    rounds[0]['stale'].append([t, rng.choice([3, 3, 3, 4, 5, 2]), True])
        for _ in range(rng.randrange(1, 5)):
            n = min(len(deps), n + rng.choice([0, 0, 0, 1, 2]))
            nxt = gen_round(rng, n, deps, hard, profile)
            nxt['lose'] = [t for t in range(n) if rng.random() < 0.2]
            nxt['same_backend'] = rng.random() < 0.3
            if nxt['same_backend']:
                nxt['workers'] = rounds[-1]['workers']
            rounds.append(nxt)
    return {'rounds': rounds}


def shrink(case):
    """smaller cases; a block whose dependencies were cut away is dropped (the case is then presented plainly)"""
    for cand in shrink_raw(case):
        for rnd in cand['rounds']:
            if rnd.get('group') and not group_consistent(rnd, rnd['n']):
                del rnd['group']
        yield cand
    for ri, rnd in enumerate(case['rounds']):
        for key in ('group', 'insert', 'bridge'):
            if key in rnd:
                new = copy.deepcopy(case['rounds'])
                del new[ri][key]
                yield {'rounds': new}


def shrink_raw(case):
    rounds = case['rounds']
    if len(rounds) > 1:
        yield {'rounds': rounds[:-1]}
        yield {'rounds': rounds[1:]}
    for ri, rnd in enumerate(rounds):
        n = rnd['n']
        if n > 0 and all(r['n'] == n for r in rounds):
            # drop the last task everywhere
            new = copy.deepcopy(rounds)
            for r in new:
                r['n'] = n - 1
                r['deps'] = r['deps'][:n - 1]
                r['hard'] = r['hard'][:n - 1]
                r['out'] = r['out'][:n - 1]
                r['lose'] = [t for t in r['lose'] if t < n - 1]
                r['stale'] = [s for s in r['stale'] if s[0] < n - 1]
            yield {'rounds': new}
        if rnd['workers'] > 1 and not rnd['same_backend'] and (ri + 1 >= len(rounds) or not rounds[ri + 1]['same_backend']):
            new = copy.deepcopy(rounds)
            new[ri]['workers'] = 1
            yield {'rounds': new}
        for t in range(n):
            if rnd['out'][t] != 'done':
                new = copy.deepcopy(rounds)
                new[ri]['out'][t] = 'done'
                yield {'rounds': new}
            for d in rnd['deps'][t]:
                new = copy.deepcopy(rounds)
                for r in new:
                    if t < r['n']:
                        r['deps'][t] = [x for x in r['deps'][t] if x != d]
                        r['hard'][t] = [x for x in r['hard'][t] if x != d]
                yield {'rounds': new}


# ------------------------------------------------------------------------------------------------
# implementation under the controlled scheduler
# ------------------------------------------------------------------------------------------------

def entry_digest(sub):
    if sub is None:
        return None
    if not hasattr(sub, 'get'):
        return [-2, None, None, None]       # an entry overwritten with something that is not a mapping
    status = sub.get('status')
    try:
        code = int(status)
    except (TypeError, ValueError):
        code = -1
    def clk(x):
        return None if x is None else int(x)
    return [code, sub.get('result'), clk(sub.get('start_clock')), clk(sub.get('end_clock'))]


def make_chooser(spec, ctlsched, schedule=None):
    if schedule is not None:
        return ctlsched.replay_chooser(schedule, spec[1])
    if spec[0] == 'pct':
        return ctlsched.pct_chooser(spec[1])
    return ctlsched.random_chooser(spec[1])


def run_rounds(case, sched_override=None):
    """Run every round of the case on the real code.  Returns one observation per round."""
    from vcheck import ctlsched
    from valjean.cosette.task import Task, TaskStatus
    from valjean.cosette.depgraph import DepGraph, DepGraphError
    from valjean.cosette.scheduler import Scheduler
    from valjean.cosette.backends.queue import QueueScheduling
    from valjean.cosette.env import Env

    class Probe(Task):
        """records what it can read about its dependencies when it starts"""
        def __init__(self, idx, state):
            super().__init__(f't{idx}')
            self.idx = idx
            self.state = state

        def do(self, env, config):
            st = self.state
            st['exec'][self.idx] += 1
            st['order'].append(self.idx)
            seen = [entry_digest(env.get(f't{d}')) for d in st['deps'][self.idx]]
            # every task also publishes under a top-level key shared by all tasks: the *complete* update of a dependency
            # executed in this run must be readable
            shared = env.get('shared') or {}
            for d, ent in zip(st['deps'][self.idx], seen):
                if ent is not None and ent[0] == 3 and st['exec'][d] >= 1 and shared.get(f't{d}') != ent[1]:
                    ent[1] = None
            st['seen'][self.idx] = seen
            version = st['ctl'].clock
            out = st['out'][self.idx]
            update = {self.name: {'result': version}, 'shared': {self.name: version}}
            if st.get('clobber') and st['clobber'][0] == self.idx:
                update[f"t{st['clobber'][1]}"] = 5
            if out == 'done':
                return update, TaskStatus.DONE
            if out == 'failedRet':
                return update, TaskStatus.FAILED
            if out == 'raises':
                raise RuntimeError('scripted failure')
            if out == 'retNone':
                return None
            if out == 'notPair':
                return (update, TaskStatus.DONE, 'extra')
            if out == 'badStatus':
                return update, 'not-a-status'
            if out == 'badUpdate':
                return 42, TaskStatus.DONE
            if out == 'sysExit':
                raise SystemExit(3)
            if out == 'retWaiting':
                return update, TaskStatus.WAITING
            if out == 'retPending':
                return update, TaskStatus.PENDING
            if out == 'clobberOwn':
                return {self.name: 5}, TaskStatus.DONE
            if out == 'badUpdateEmptyList':
                return [], TaskStatus.DONE
            if out == 'badUpdateZero':
                return 0, TaskStatus.DONE
            if out == 'badUpdateEmptyStr':
                return '', TaskStatus.DONE
            if out == 'raisingIterable':
                def boom():
                    raise RuntimeError('scripted failure while the result is unpacked')
                    yield None      # pylint: disable=unreachable
                return boom()
            if out == 'unappliable':
                return {'shared': {'blocker': {'x': 1}}, self.name: {'result': version}}, TaskStatus.DONE
            if out == 'doneFrozenUpdate':
                import types
                return types.MappingProxyType(update), TaskStatus.DONE
            if out == 'ownReadOnly':
                import types
                return {self.name: types.MappingProxyType({'result': version})}, TaskStatus.DONE
            raise ValueError(out)

    observations = []
    prev_env = None
    backend = None
    clock = 0
    for ri, rnd in enumerate(case['rounds']):
        n = rnd['n']
        state = {'exec': [0] * n, 'seen': [None] * n, 'deps': rnd['deps'], 'out': rnd['out'], 'ctl': None, 'order': [],
                 'clobber': rnd.get('clobber')}
        tasks = [Probe(i, state) for i in range(n)]
        hard_graph, soft_graph = DepGraph(), DepGraph()
        # the caller builds its graphs in any order: `insert` is the order in which the tasks (and their edges) are handed
        # to the graphs; the master works through the tasks in the order of the topological sort of the full graph, which
        # is then not the order of the task numbers (the comparison with the model goes through that permutation)
        insert = [t for t in (rnd.get('insert') or []) if t < n]
        insert += [t for t in range(n) if t not in insert]      # (a shrunk case may have fewer tasks)
        group = rnd.get('group')
        if group and not group_consistent(rnd, n):
            group = None          # (a shrunk case whose dependencies are no longer those of the block: plain presentation)
        inside = set(group['members']) if group else set()
        sub = DepGraph() if group else None
        placed = False
        for t in insert:
            if t in inside:
                sub.add_node(tasks[t])
                if not placed:
                    hard_graph.add_node(sub)
                    placed = True
            else:
                hard_graph.add_node(tasks[t])
        bridge = rnd.get('bridge')
        if bridge and not (bridge['t'] < n and bridge['d'] in rnd['deps'][bridge['t']]
                           and bridge['d'] not in rnd['hard'][bridge['t']]
                           and bridge['t'] not in inside and bridge['d'] not in inside):
            bridge = None         # (a shrunk case that lost the soft dependency: plain presentation)
        if bridge:
            stage = DepGraph()
            if bridge['nested']:
                stage.add_node(DepGraph())
            upper, lower = (hard_graph, soft_graph) if bridge['kind'] == 'hs' else (soft_graph, hard_graph)
            upper.add_dependency(tasks[bridge['t']], on=stage)
            lower.add_dependency(stage, on=tasks[bridge['d']])
        for t in insert:
            for d in rnd['deps'][t]:
                if bridge and (t, d) == (bridge['t'], bridge['d']):
                    continue                    # stands in the graphs as the two edges of the empty stage (above)
                if (t in inside) != (d in inside):
                    continue                    # stands in the graphs as an edge from / to the block (below)
                if t in inside:
                    sub.add_dependency(tasks[t], on=tasks[d])
                elif d in rnd['hard'][t]:
                    hard_graph.add_dependency(tasks[t], on=tasks[d])
                else:
                    soft_graph.add_dependency(tasks[t], on=tasks[d])
        if group:
            for d in group['deps']:
                hard_graph.add_dependency(sub, on=tasks[d])
            for t in group['dependees']:
                hard_graph.add_dependency(tasks[t], on=sub)
        if rnd['cyclic']:
            if n >= 2:
                # 'soft' / 'mixed': the cycle is closed by a soft dependency (only the full graph is cyclic)
                kind = rnd.get('cycle_kind', 'hard')
                (soft_graph if kind == 'soft' else hard_graph).add_dependency(tasks[0], on=tasks[n - 1])
                (soft_graph if kind in ('soft', 'mixed') else hard_graph).add_dependency(tasks[n - 1], on=tasks[0])
            else:
                extra = Probe(n, {'exec': [0] * (n + 1), 'seen': [None] * (n + 1), 'deps': rnd['deps'] + [[]],
                                  'out': rnd['out'] + ['done'], 'ctl': None, 'order': []})
                hard_graph.add_dependency(extra, on=extra)
        spec = rnd['sched'] if sched_override is None else sched_override[ri]
        chooser = make_chooser(spec[:2], ctlsched, spec[2] if len(spec) > 2 else None)
        obs = {'clock0': clock, 'error': None, 'deadlock': None}
        with ctlsched.Session(chooser, max_steps=400 + 60 * n * (1 + rnd['workers'])) as ses:
            ctl = ses.ctl
            # the environment is created inside the session: its lock is then an instrumented one
            env_in = Env()
            if prev_env is not None and not rnd.get('fresh_env'):
                prev_env.pop('shared', None)      # not a task entry (merge_done_tasks expects a status in every entry)
                env_in.merge_done_tasks(prev_env)
                for t in rnd['lose']:
                    if f't{t}' in env_in:
                        del env_in[f't{t}']
            for t, code, with_clocks in rnd['stale']:
                sub = {'status': TaskStatus(code)}
                if with_clocks:
                    sub.update(start_clock=0.0, end_clock=0.0, result=0)
                env_in[f't{t}'] = sub
            if 'unappliable' in rnd['out']:
                env_in['shared'] = {'blocker': 0}
            obs['env0'] = [entry_digest(env_in.get(f't{t}')) for t in range(n)]
            ctl.clock = clock
            state['ctl'] = ctl
            if backend is None or not rnd['same_backend']:
                backend = QueueScheduling(n_workers=rnd['workers'])
            queue = backend.queue
            queue.ctl = ctl                       # the backend (and its queue) may come from an earlier call
            obs['queue0'] = [None if x is None else x.idx for x in getattr(queue, 'items', [])]
            obs['unfinished0'] = getattr(queue, 'unfinished_tasks', 0)
            if not hasattr(queue, 'items'):       # created outside a session (never happens: sessions create it)
                obs['queue0'], obs['unfinished0'] = [], 0
            digests = []

            def tid_num(tid):
                return 0 if tid == 'M' else int(tid[1:]) + 1

            def on_step(ctl_):
                cond = ses.fake_threading.conditions[-1] if ses.fake_threading.conditions else None
                owner = cond.lock.owner if cond else None
                enabled = sorted(tid_num(t) for t in ctl_._enabled())
                digests.append({
                    'env': [entry_digest(env_in.get(f't{t}')) for t in range(n)],
                    'queue': [None if x is None else x.idx for x in queue.items],
                    'unf': queue.unfinished_tasks,
                    'cond': None if owner is None else tid_num(owner),
                    'exec': list(state['exec']),
                    'seen': copy.deepcopy(state['seen']),
                    'en': enabled})
            # a large job (a thousand tasks): only the C03 clauses are decided, no per-step record, no model replay
            ctl.on_step = None if rnd.get('big') else on_step
            order_ok = True
            try:
                if rnd.get('twice'):
                    # the graphs belong to the caller: an earlier Scheduler built from the same objects changes nothing
                    Scheduler(hard_graph=hard_graph, soft_graph=soft_graph, backend=backend)
                scheduler = Scheduler(hard_graph=hard_graph, soft_graph=soft_graph, backend=backend)
                if not rnd['cyclic']:
                    order = [t.idx for t in scheduler.full_graph.topological_sort()]
                    order_ok = sorted(order) == list(range(n))
                    obs['perm'] = order
                env_out = scheduler.schedule(env=env_in)
                obs['returned'] = True
            except ctlsched.Abort:
                obs['returned'] = False
                obs['error'] = 'abort'
                env_out = env_in
            except DepGraphError:
                obs['returned'] = False
                obs['error'] = 'DepGraphError'
                env_out = env_in
            except Exception as exc:  # pylint: disable=broad-except
                obs['returned'] = False
                obs['error'] = f'{type(exc).__name__}: {exc}'[:200]
                env_out = env_in
            ctl.on_step = None
            on_step(ctl)                          # final state
            obs['final'] = digests.pop()
            obs['deadlock'] = ctl.deadlock
            obs['live_workers'] = ses.live_workers()
            obs['trace'] = [[tid_num(e[0]), e[1]] for e in ctl.trace]
            obs['schedule'] = [e[0] for e in ctl.trace]
            obs['digests'] = digests
            obs['order_ok'] = order_ok
            obs['queue_end'] = [None if x is None else x.idx for x in queue.items]
            obs['unfinished_end'] = queue.unfinished_tasks
            clock = ctl.clock
        obs['env_out'] = [entry_digest(env_out.get(f't{t}')) for t in range(n)]
        obs['exec'] = list(state['exec'])
        obs['seen'] = state['seen']
        obs['order'] = list(state['order'])
        shared_out = env_out.get('shared') or {}
        obs['shared_lost'] = [t for t in range(n) if obs['env_out'][t] is not None and obs['env_out'][t][0] == 3
                              and state['exec'][t] >= 1 and shared_out.get(f't{t}') != obs['env_out'][t][1]]
        observations.append(obs)
        prev_env = env_out
    return observations


_LAST = {}


def run_impl(case, run):
    _LAST['impl'] = {'rounds': run_rounds(case)}
    return _LAST['impl']


def model_cfg(rnd):
    return {'n': rnd['n'], 'deps': rnd['deps'], 'hard': rnd['hard'], 'out': [MODEL_OUTCOME.get(o, o) for o in rnd['out']],
            'workers': rnd['workers'],
            'cyclic': rnd['cyclic']}


def run_model(case, driver, run, impl=None):
    """replay, per round, the schedule recorded on the implementation"""
    if impl is None:
        impl = _LAST['impl']
    if any(rnd.get('big') or 'unappliable' in rnd['out'] for rnd in case['rounds']):
        return None
    outs = []
    for rnd, obs in zip(case['rounds'], impl['rounds']):
        cfg, env0, queue0 = model_cfg(rnd), obs['env0'], obs['queue0']
        perm = obs.get('perm')
        if perm and perm != list(range(rnd['n'])) and sorted(perm) == list(range(rnd['n'])):
            # the model numbers the tasks in the order the master works through them
            inv = {label: k for k, label in enumerate(perm)}
            cfg = dict(cfg, deps=[[inv[d] for d in rnd['deps'][t]] for t in perm],
                       hard=[[inv[d] for d in rnd['hard'][t]] for t in perm], out=[cfg['out'][t] for t in perm])
            env0 = [env0[t] for t in perm]
            queue0 = [None if x is None else inv.get(x, x) for x in queue0]
        rep = driver.ask('sched', {'cfg': cfg, 'env': env0, 'queue': queue0,
                                   'unfinished': obs['unfinished0'], 'clock': obs['clock0'], 'steps': obs['trace']})
        outs.append(rep)
    return {'rounds': outs}


def relabel_digest(dig, perm):
    """an implementation-side state in the model's task numbers"""
    inv = {label: k for k, label in enumerate(perm)}
    out = dict(dig)
    out['env'] = [dig['env'][t] for t in perm]
    out['exec'] = [dig['exec'][t] for t in perm]
    out['seen'] = [dig['seen'][t] for t in perm]
    out['queue'] = [None if x is None else inv.get(x, x) for x in dig['queue']]
    return out


def compare(case, impl, model):
    from vcheck.runner import first_diff
    if any(rnd.get('clobber') for rnd in case['rounds']):
        return None       # not a behaviour of the model: oracle clauses only
    for ri, (obs, rep) in enumerate(zip(impl['rounds'], model['rounds'])):
        if '!driver-error' in rep:
            return f"round {ri}: driver error {rep['!driver-error']}"
        if not obs['order_ok']:
            return f'round {ri}: topological_sort did not return every task once (harness assumption)'
        if rep['rejected'] is not None:
            k = rep['rejected']
            return f"round {ri}: the model rejects step #{k} {obs['trace'][k]} of the recorded schedule"
        imp_digests = obs['digests'] + [obs['final']]
        perm = obs.get('perm')
        if perm and perm != list(range(len(perm))):
            imp_digests = [relabel_digest(d, perm) for d in imp_digests]
        mod_digests = rep['digests']
        if len(imp_digests) != len(mod_digests):
            return f'round {ri}: {len(imp_digests)} states recorded, {len(mod_digests)} in the model'
        for k, (a, b) in enumerate(zip(imp_digests, mod_digests)):
            b = {key: b[key] for key in a}
            if k == len(imp_digests) - 1:
                a, b = dict(a), dict(b)
                a.pop('en'), b.pop('en')       # after the last step nothing is pending on the implementation side
            diff = first_diff(a, b)
            if diff:
                step = obs['trace'][k - 1] if k else None
                return f'round {ri}: state before step #{k} (after {step}): {diff}'
        if mod_digests[-1]['terminal'] != (obs['deadlock'] is None and not obs['live_workers']):
            return (f"round {ri}: model terminal={mod_digests[-1]['terminal']} but implementation deadlock={obs['deadlock']} "
                    f"live={obs['live_workers']}")
    return None


# ------------------------------------------------------------------------------------------------
# oracles
# ------------------------------------------------------------------------------------------------

FINAL = (3, 4, 5)


def spec_status(rnd):
    """C02: the status map determined by the graph and the task results alone (empty initial environment)"""
    spec = []
    for t in range(rnd['n']):
        if any(spec[h] in (4, 5) for h in rnd['hard'][t]):
            spec.append(5)
        else:
            spec.append(3 if MODEL_OUTCOME.get(rnd['out'][t], rnd['out'][t]) == 'done' else 4)
    return spec


def oracle_c01(case, impl, run):
    fails = []
    for ri, (rnd, obs) in enumerate(zip(case['rounds'], impl['rounds'])):
        for t in range(rnd['n']):
            seen = obs['seen'][t]
            if seen is None:
                continue
            for d, ent in zip(rnd['deps'][t], seen):
                if ent is None or ent[0] not in FINAL:
                    fails.append(('dep_safe_inv', f'round {ri}: task {t} started while its dependency {d} was {ent}'))
                elif ent[0] == 3 and (ent[1] is None or ent[2] is None or ent[3] is None):
                    fails.append(('dep_safe_inv', f'round {ri}: task {t} started with dependency {d} DONE but its results/clocks '
                                  f'not published yet: {ent}'))
                elif ent[0] == 3:
                    # the update must be the one of the dependency's last execution
                    final = obs['env_out'][d]
                    if final and final[0] == 3 and obs['exec'][d] <= 1 and final[1] != ent[1] and obs['env0'][d] is None:
                        fails.append(('dep_safe_inv', f'round {ri}: task {t} read version {ent[1]} of dependency {d}, final is {final[1]}'))
        # a dependency that is final when a task starts is not executed (again) afterwards
        order = obs.get('order', [])
        for pos, t in enumerate(order):
            later = set(order[pos + 1:])
            for d in rnd['deps'][t]:
                if d in later:
                    fails.append(('dep_safe_inv', f'round {ri}: dependency {d} was executed after task {t} had started '
                                  f'(execution order {order}): it had not reached its final state'))
        if obs.get('shared_lost'):
            fails.append(('dep_safe_inv', f'round {ri}: the complete update of task(s) {obs["shared_lost"]} is not readable from the '
                          f'final environment (part published under a key shared with other tasks was lost)'))
    return fails


def oracle_c02(case, impl, run):
    fails = []
    for ri, (rnd, obs) in enumerate(zip(case['rounds'], impl['rounds'])):
        if any(e is not None for e in obs['env0']) or rnd['cyclic']:
            continue
        if not obs['returned']:
            continue                      # C03's business
        spec = spec_status(rnd)
        got = [None if e is None else e[0] for e in obs['env_out']]
        if got != spec:
            fails.append(('final_status_eq_spec', f'round {ri}: statuses {got}, determined by the graph and results: {spec}'))
        want = [0 if s == 5 else 1 for s in spec]
        if obs['exec'] != want:
            fails.append(('exec_count', f'round {ri}: executions {obs["exec"]}, expected {want}'))
    return fails


def oracle_c03(case, impl, run):
    fails = []
    for ri, (rnd, obs) in enumerate(zip(case['rounds'], impl['rounds'])):
        if obs['deadlock']:
            fails.append(('no_deadlock', f'round {ri}: no runnable thread while some thread is unfinished: {obs["deadlock"]}'))
            continue
        if obs['live_workers']:
            fails.append(('clean_exit', f'round {ri}: worker threads left behind: {obs["live_workers"]} (call '
                          f'{"returned" if obs["returned"] else "raised " + str(obs["error"])})'))
        if obs['queue_end'] or obs['unfinished_end']:
            fails.append(('clean_exit', f'round {ri}: queue {obs["queue_end"]}, unfinished_tasks {obs["unfinished_end"]} after the call'))
        if rnd['cyclic'] and obs['error'] != 'DepGraphError':
            fails.append(('raises_iff_cyclic', f'round {ri}: cyclic graph, got {obs["error"]} / returned={obs["returned"]}'))
        if not rnd['cyclic'] and not obs['returned'] and not any(r.get('clobber') for r in case['rounds'][:ri + 1]):
            fails.append(('raises_iff_cyclic', f'round {ri}: acyclic graph but the call raised {obs["error"]}'))
    return fails


def oracle_c04(case, impl, run):
    fails = []
    for ri, (rnd, obs) in enumerate(zip(case['rounds'], impl['rounds'])):
        if not obs['returned']:
            continue
        env = obs['env_out']
        for t in range(rnd['n']):
            ent = env[t]
            if ent is None or ent[0] != 3:
                continue
            for d in rnd['deps'][t]:
                dep = env[d]
                if dep is not None and dep[0] == 3:
                    if ent[2] is None or dep[3] is None or dep[3] > ent[2]:
                        fails.append(('rerun_consistent', f'round {ri}: task {t} is DONE (start {ent[2]}) but its DONE dependency {d} '
                                      f'ended at {dep[3]}'))
            for h in rnd['hard'][t]:
                dep = env[h]
                if dep is not None and dep[0] in (4, 5):
                    fails.append(('rerun_consistent', f'round {ri}: task {t} is DONE but its hard dependency {h} has status {dep[0]}'))
        # a task that was DONE, with all its transitive dependencies DONE and not re-executed, is not executed again
        if any(e is not None for e in obs['env0']):
            env0 = obs['env0']
            memo = {}

            def fresh(t):
                if t not in memo:
                    ent = env0[t]
                    memo[t] = (ent is not None and ent[0] == 3 and obs['exec'][t] == 0
                               and all(fresh(d) for d in rnd['deps'][t]))
                return memo[t]
            for t in range(rnd['n']):
                ent = env0[t]
                if ent is None or ent[0] != 3:
                    continue
                deps_fresh = all(fresh(d) for d in rnd['deps'][t])
                up_to_date = all(env0[d][3] is not None and ent[2] is not None and env0[d][3] <= ent[2]
                                 for d in rnd['deps'][t] if env0[d] is not None and env0[d][0] == 3)
                if deps_fresh and up_to_date:
                    if obs['exec'][t] != 0:
                        fails.append(('fresh_not_rerun', f'round {ri}: task {t} was DONE and up to date, none of its transitive '
                                      f'dependencies was re-executed, yet it ran again'))
                    elif env[t] != ent:
                        fails.append(('fresh_not_rerun', f'round {ri}: recorded results of task {t} changed: {ent} -> {env[t]}'))
    return fails


def histogram(case, impl, run):
    for rnd, obs in zip(case['rounds'], impl['rounds']):
        run.count(f"n={min(rnd['n'], 9)}")
        run.count(f"workers={rnd['workers']}")
        run.count('sched:' + rnd['sched'][0])
        run.count(f"steps<={(len(obs['trace']) // 50 + 1) * 50}")
        for o in rnd['out']:
            run.count('outcome:' + o)
        if rnd['cyclic']:
            run.count('cyclic')
        if rnd['stale']:
            run.count('stale-entries')
        if rnd['same_backend']:
            run.count('same-backend')
        if rnd['lose']:
            run.count('lost-entries')
    run.count(f"rounds={len(case['rounds'])}")


def nontrivial_key(case, impl):
    rounds = case['rounds']
    big = any(r['n'] >= 3 and sum(map(len, r['deps'])) >= 2 and r['workers'] >= 2 for r in rounds)
    special = any(r['cyclic'] or r['stale'] or r['same_backend'] or r['lose'] for r in rounds) or len(rounds) > 1
    return case if (big or special) else None
