"""C13 — looking at a test result never changes its verdict or its inputs."""
import copy
from props import c18
from vcheck.fl import bits

PROPERTY = 'C13'
THEOREMS = ['Diag.reads_are_identity', 'Diag.verdict_stable', 'Diag.reads_prefix_identity', 'Diag.counts_eq',
            'Diag.clsGet_clsIndex', 'Diag.c13_pinned_refuted', 'Diag.arrays_partial']
BUDGET = {'quick': 2500, 'thorough': 30000}
TIME_LIMIT = {'quick': 55, 'thorough': 800}
RULE = ('one result of every kind with a built-in representation (equal, approx-equal, Student, chi-square, Bonferroni, '
        'Holm-Bonferroni, metadata, statistics of tasks / tests / tests by labels, failed evaluation, external test with user-made plot / table / text templates), datasets of shape () '
        'to 3-d with random failing-bin patterns, bins sometimes open-ended (first / last bin 1e30 wide), compared datasets sometimes sharing a name, arrays sometimes in the non-native byte order, then a random sequence of 1-12 read-only operations: bool, oracles, len / '
        'get / index / contains on the classification, classification_counts, table / plot / full representation at every '
        'verbosity, Rst.format_result, fingerprint, data(), pickle.dumps, copy.deepcopy, repr; a deep bit-for-bit snapshot '
        '(array bytes, dtypes, shapes, dictionary keys in order) of the result, its test and its datasets is taken '
        'before and after every operation, and evaluate() is run twice; non-trivial = a sequence with at least one '
        'representation or count; distinct = case hash')
CORRESPONDS = ('Model/Diag.lean (applyRead on the classification: bool, len, get, contains, counts, view) vs the real '
               'TestResultStatsTasks / TestResultStatsTests under the same read sequence (dictionary and verdict after '
               'every read); array-backed kinds: snapshots only (pure values in the model)')
TRUSTED = ['harness/props/c13.py (generator, deep snapshot)', 'vjdriver (compiled Model/Diag.lean)',
           'the representation / formatting / pickling code is exercised, not modelled: it is a parameter `view` of the model '
           'whose only assumed behaviour (no write to the result) is exactly what the snapshots check']
ASSUMPTIONS = ['for array-backed result kinds the theorem is trivial in a pure model (arrays_partial); the claim is decided by the '
               'snapshots around every read on the real objects',
               'matplotlib is not invoked: plot representation builds PlotTemplate objects only']

KINDS = ['tasks', 'tests', 'bylabels', 'equal', 'approx', 'student', 'student_ndf', 'chi2', 'bonf', 'holm', 'metadata', 'failed',
         'external']
OPS = ['bool', 'bool', 'oracles', 'len', 'get', 'index', 'contains', 'counts', 'table', 'table', 'plot', 'full', 'rst',
       'fingerprint', 'data', 'pickle', 'deepcopy', 'repr']


def gen(rng, tier, run):
    kind = rng.choice(KINDS)
    case = {'kind': kind}
    if kind in ('tasks', 'tests', 'bylabels'):
        sub = c18.gen(rng, tier, run)
        if kind == 'bylabels' and sub['byLabels'] is None:
            sub['byLabels'] = ['meal']
        if rng.random() < 0.35:          # everything fine: the verdict True is the fragile one
            for tsk in sub['tasks']:
                tsk['status'] = 3
                for res in tsk['results'] or []:
                    res['verdict'] = True
        case.update(sub)
    elif kind == 'external':
        # a test evaluated outside valjean: the user hands over its verdict and its representation (templates)
        case['success'] = rng.random() < 0.6
        case['wide'] = rng.choice([None, 'last', 'first', 'both', 'both'])
        case['limits'] = rng.choice([None, None, [[9990.0, 10010.0]]])
        case['templates'] = rng.sample(['plot', 'table', 'text', 'plot2d'], rng.randrange(1, 4))
    elif kind == 'metadata':
        keys = ['a', 'b', 'c']
        case['md'] = [{k: rng.choice([1, 2, 'x']) for k in keys if rng.random() < 0.9} for _ in range(rng.choice([2, 3]))]
    else:
        shape = rng.choice([[], [1], [3], [6], [2, 3], [2, 2, 2]])
        size = 1
        for n in shape:
            size *= n
        case['shape'] = shape
        case['ref'] = [rng.choice([1.0, 2.5, rng.uniform(-10, 10)]) for _ in range(size)]
        nds = rng.choice([1, 1, 2])
        pfail = rng.choice([0.0, 0.0, 0.3, 1.0])
        case['dss'] = [[v + (rng.choice([1.0, -3.0, 50.0]) if rng.random() < pfail else rng.choice([0.0, 0.0, 1e-12]))
                        for v in case['ref']] for _ in range(nds)]
        if rng.random() < 0.3:            # an undefined bin on one side (NaN), or an infinite one
            tgt = rng.choice([case['ref']] + case['dss'])
            tgt[rng.randrange(size)] = rng.choice([float('nan'), float('nan'), float('inf')])
        case['err'] = [rng.choice([0.1, 0.5, 1.0]) for _ in range(size)]
        # a first / last bin far wider than its neighbour (open-ended grids), compared datasets that share a name
        case['wide'] = rng.choice([None, None, None, 'last', 'first', 'both'])
        case['same_names'] = rng.random() < 0.3
        case['alpha'] = rng.choice([0.01, 0.05, 0.2])
        # arrays stored in the other byte order (as read from a file written on another machine)
        if rng.random() < 0.15:
            case['byteorder'] = 'swapped'
    case['ops'] = [{'op': rng.choice(OPS), 'verb': rng.randrange(0, 6), 'key': rng.randrange(0, 6),
                    'rep': rng.choice(['table', 'plot', 'full', 'fulltable', 'fullplot'])} for _ in range(rng.randrange(1, 13))]
    return case


def shrink(case):
    ops = case['ops']
    for i in range(len(ops)):
        if len(ops) > 1:
            yield dict(case, ops=ops[:i] + ops[i + 1:])
    if case['kind'] in ('tasks', 'tests', 'bylabels'):
        for sub in c18.shrink({'tasks': case['tasks'], 'byLabels': case['byLabels']}):
            if case['kind'] == 'bylabels' and not sub['byLabels']:
                continue
            yield dict(case, **sub)


def snap(obj, memo=None, depth=0):
    """deep, order-preserving, bit-for-bit picture of an object graph"""
    import enum
    import numpy as np
    if memo is None:
        memo = {}
    if depth > 12:
        return '...'
    if obj is None or isinstance(obj, (bool, int, str, bytes)):
        return obj
    if isinstance(obj, float):
        return ('f', bits(obj))
    if isinstance(obj, enum.Enum):
        return ('enum', type(obj).__name__, obj.name)
    if isinstance(obj, np.ndarray):
        mask = np.ma.getmaskarray(obj).tobytes() if isinstance(obj, np.ma.MaskedArray) else None
        return ('nd', str(obj.dtype), obj.shape, np.ascontiguousarray(np.asarray(obj)).tobytes(), mask)
    if isinstance(obj, np.generic):
        return ('ng', str(obj.dtype), obj.tobytes())
    if id(obj) in memo:
        return ('ref', memo[id(obj)])
    memo[id(obj)] = len(memo)
    if isinstance(obj, dict):
        return ('dict', type(obj).__name__, [(snap(k, memo, depth + 1), snap(v, memo, depth + 1)) for k, v in obj.items()])
    if isinstance(obj, (list, tuple)):
        return (type(obj).__name__, [snap(x, memo, depth + 1) for x in obj])
    if isinstance(obj, (set, frozenset)):
        return ('set', sorted(repr(x) for x in obj))
    if hasattr(obj, '__dict__'):
        return ('obj', type(obj).__name__, [(k, snap(v, memo, depth + 1)) for k, v in vars(obj).items()])
    return ('repr', repr(obj))


def build(case):
    """the test object of the case"""
    from collections import OrderedDict
    import numpy as np
    from valjean.eponine.dataset import Dataset
    from valjean.gavroche import test as gtest
    from valjean.gavroche.diagnostics import stats
    from valjean.gavroche.diagnostics.metadata import TestMetadata
    from valjean.gavroche.stat_tests.student import TestStudent
    from valjean.gavroche.stat_tests.chi2 import TestChi2
    from valjean.gavroche.stat_tests.bonferroni import TestBonferroni, TestHolmBonferroni
    kind = case['kind']
    fps = {}
    if kind in ('tasks', 'tests', 'bylabels'):
        task_results, fps = c18.build_task_results(case)
        if kind == 'tasks':
            return stats.TestStatsTasks(name='s', task_results=task_results), fps
        if kind == 'tests':
            return stats.TestStatsTests(name='s', task_results=task_results), fps
        return stats.TestStatsTestsByLabels(name='s', task_results=task_results, by_labels=tuple(case['byLabels'])), fps
    if kind == 'metadata':
        return TestMetadata({f'd{i}': md for i, md in enumerate(case['md'])}, name='md'), fps
    if kind == 'external':
        from valjean.javert.test_external import TestExternal
        from valjean.javert.templates import (PlotTemplate, SubPlotElements, CurveElements, TableTemplate, TextTemplate)
        edges = np.array([1e4 - 1, 1e4, 1e4 + 1, 1e4 + 2, 1e4 + 3, 1e4 + 4])
        if case['wide'] in ('first', 'both'):
            edges[0] = 1e-11
        if case['wide'] in ('last', 'both'):
            edges[-1] = 2e7
        tmpls = []
        for what in case['templates']:
            if what == 'plot':
                crv = CurveElements(values=np.array([3., 1., 4., 1., 5.]), bins=[edges.copy()], legend='spectrum', index=0,
                                    errors=np.full(5, 0.1))
                splt = SubPlotElements(curves=[crv], axnames=('E', 'flux'), ptype='1D')
                if case['limits'] is not None:
                    splt.attributes.limits = [tuple(x) for x in case['limits']]
                tmpls.append(PlotTemplate(subplots=[splt]))
            elif what == 'plot2d':
                crv = CurveElements(values=np.arange(10.).reshape(5, 2), bins=[edges.copy(), np.array([0., 1., 2.])],
                                    legend='map', index=0)
                tmpls.append(PlotTemplate(subplots=[SubPlotElements(curves=[crv], axnames=('E', 't', 'flux'), ptype='2D')]))
            elif what == 'table':
                tmpls.append(TableTemplate(np.array([1., 2.]), np.array([3., 4.]), headers=['a', 'b']))
            else:
                tmpls.append(TextTemplate('checked by hand'))
        return TestExternal(*tmpls, name='ext', description='an external check', success=case['success']), fps
    shape = case['shape']

    import sys
    flt = np.dtype(float)
    if case.get('byteorder') == 'swapped':
        flt = np.dtype('>f8' if sys.byteorder == 'little' else '<f8')

    def mkds(vals, name):
        bins = OrderedDict((f'b{ax}', np.arange(n + 1, dtype=float).astype(flt)) for ax, n in enumerate(shape))
        for edges in bins.values():
            if case.get('wide') in ('last', 'both'):
                edges[-1] = 1e30
            if case.get('wide') in ('first', 'both') and len(edges) > 2:
                edges[0] = -1e30
        if shape:
            return Dataset(np.array(vals, dtype=flt).reshape(shape), np.array(case['err'], dtype=flt).reshape(shape),
                           bins=bins, name=name)
        return Dataset(np.float64(vals[0]), np.float64(case['err'][0]), name=name)
    ref = mkds(case['ref'], 'ref')
    dss = [mkds(v, 'ds' if case.get('same_names') else f'ds{i}') for i, v in enumerate(case['dss'])]
    if kind == 'equal':
        return gtest.TestEqual(ref, *dss, name='eq'), fps
    if kind == 'approx':
        return gtest.TestApproxEqual(ref, *dss, name='ap'), fps
    if kind == 'student':
        return TestStudent(ref, *dss, name='st', alpha=case['alpha']), fps
    if kind == 'student_ndf':
        return TestStudent(ref, *dss, name='st', alpha=case['alpha'], ndf=20), fps
    if kind == 'chi2':
        return TestChi2(ref, *dss, name='c2', alpha=case['alpha']), fps
    if kind == 'bonf':
        return TestBonferroni(name='bf', test=TestStudent(ref, *dss, name='st', ndf=20), alpha=case['alpha']), fps
    if kind == 'holm':
        return TestHolmBonferroni(name='hb', test=TestStudent(ref, *dss, name='st', ndf=20), alpha=case['alpha']), fps
    if kind == 'failed':
        return gtest.TestEqual(ref, *dss, name='eq'), fps
    raise ValueError(kind)


def apply_op(res, op, status_first):
    import pickle
    from valjean.fingerprint import fingerprint
    from valjean.javert import representation as rep
    from valjean.javert.rst import Rst
    from valjean.javert.verbosity import Verbosity
    from valjean.gavroche.diagnostics.stats import classification_counts
    name = op['op']
    verb = Verbosity(op['verb'])
    cls = getattr(res, 'classify', None)
    if name == 'bool':
        return bool(res)
    if name == 'oracles':
        return res.oracles() if hasattr(res, 'oracles') else None
    if name in ('len', 'get', 'index', 'contains', 'counts'):
        if not isinstance(cls, dict) or status_first is None:
            return None
        key = status_first.__class__(op['key']) if op['key'] in [s.value for s in status_first.__class__] else None
        if name == 'len':
            return len(cls)
        if name == 'counts':
            return classification_counts(cls, status_first)
        if key is None:
            return None
        if name == 'get':
            return cls.get(key)
        if name == 'contains':
            return key in cls
        try:
            return cls[key]
        except KeyError:
            return 'KeyError'
    if name in ('table', 'plot', 'full', 'rst'):
        kind = op['rep'] if name == 'rst' else name
        representer = {'table': rep.TableRepresenter, 'plot': rep.PlotRepresenter, 'full': rep.FullRepresenter,
                       'fulltable': rep.FullTableRepresenter, 'fullplot': rep.FullPlotRepresenter}[kind]()
        repn = rep.Representation(representer, verbosity=verb)
        if name == 'rst':
            return Rst(repn).format_result(res)
        return repn(res)
    if name == 'fingerprint':
        return fingerprint(res.test)
    if name == 'data':
        return [bytes(x) for x in res.test.data()]
    if name == 'pickle':
        return pickle.dumps(res)
    if name == 'deepcopy':
        return copy.deepcopy(res)
    if name == 'repr':
        return repr(res), str(res)
    raise ValueError(name)


def run_impl(case, run):
    import warnings
    import numpy as np
    import logging
    warnings.simplefilter('ignore')
    np.seterr(all='ignore')
    logging.disable(logging.CRITICAL)
    from valjean.cosette.task import TaskStatus
    from valjean.gavroche.diagnostics.stats import TestOutcome
    from valjean.gavroche.test import TestResultFailed
    out = {'steps': []}
    try:
        test, fps = build(case)
        kind = case['kind']
        inputs0 = snap(test)
        res = TestResultFailed(test, 'scripted failure') if kind == 'failed' else test.evaluate()
        # evaluating is looking too: the test, its datasets and the results it observes are what they were
        out['inputs_unchanged_by_evaluate'] = snap(test) == inputs0
        status_first = {'tasks': TaskStatus.DONE, 'tests': TestOutcome.SUCCESS}.get(kind)
        first = snap(res)
        verdict0 = bool(res)
        out['verdict0'] = verdict0

        def dump():
            if kind in ('tasks', 'tests'):
                return [c18.dump_classify(res.classify, fps), bool(res)]
            return None
        out['steps'].append(dump())
        for i, op in enumerate(case['ops']):
            before = snap(res)
            err = None
            try:
                apply_op(res, op, status_first)
            except Exception as exc:  # pylint: disable=broad-except
                err = f'{type(exc).__name__}: {exc}'[:160]
            after = snap(res)
            out['steps'].append(dump())
            if after != before:
                out.setdefault('changed', []).append(i)
            if err:
                out.setdefault('op_errors', []).append([i, op['op'], err])
            if bool(res) != verdict0:
                out.setdefault('verdict_changed', []).append(i)
        out['same_as_first'] = snap(res) == first
        if kind != 'failed':
            again = test.evaluate()
            out['deterministic'] = snap(again) == first and bool(again) == verdict0
    except Exception as exc:  # pylint: disable=broad-except
        out['exception'] = f'{type(exc).__name__}: {exc}'[:200]
    finally:
        logging.disable(logging.NOTSET)
    return out


def model_ops(case):
    kind = case['kind']
    nstat = 6 if kind == 'tasks' else 4            # TaskStatus has values 0..5?, TestOutcome 0..3
    first = 3 if kind == 'tasks' else 0
    ops = []
    for op in case['ops']:
        name = op['op']
        if name == 'bool':
            ops.append(['bool'])
        elif name == 'len':
            ops.append(['len'])
        elif name in ('get', 'index'):
            ops.append(['get', op['key']])
        elif name == 'contains':
            ops.append(['contains', op['key']])
        elif name == 'counts':
            ops.append(['counts', first, [s for s in STATUS_VALUES[kind] if s != first]])
        else:
            ops.append(['view'])
    return ops


STATUS_VALUES = {}


def run_model(case, driver, run):
    if case['kind'] not in ('tasks', 'tests'):
        return {'skipped': True}
    if not STATUS_VALUES:
        from valjean.cosette.task import TaskStatus
        from valjean.gavroche.diagnostics.stats import TestOutcome
        STATUS_VALUES['tasks'] = [s.value for s in TaskStatus]
        STATUS_VALUES['tests'] = [s.value for s in TestOutcome]
    req = c18.to_model(case)
    return {'steps': driver.ask('diagreads', {'tasks': req['tasks'], 'kind': case['kind'], 'ops': model_ops(case)})}


def compare(case, impl, model):
    if model.get('skipped') or 'exception' in impl:
        return None
    from vcheck.runner import first_diff
    return first_diff(impl['steps'], model['steps'])


def oracle(case, impl, run):
    run.count('kind=' + case['kind'])
    for op in case['ops']:
        run.count('op=' + op['op'])
    if 'exception' in impl:
        if impl['exception'].startswith('TestStatsTestsByLabelsException'):
            run.count('no result (labels not found)')
            return []
        return [('no_exception', impl['exception'])]
    fails = []
    for i in impl.get('changed', []):
        op = case['ops'][i]
        fails.append(('reads_are_identity', f"operation #{i} ({op['op']}, verbosity {op['verb']}) changed the result, its test or its datasets"))
    for i in impl.get('verdict_changed', []):
        fails.append(('verdict_stable', f"after operation #{i} ({case['ops'][i]['op']}) the verdict is {not impl['verdict0']}, it was {impl['verdict0']}"))
    if impl.get('deterministic') is False:
        fails.append(('evaluate_deterministic', 'a second evaluate() gave a different result'))
    if impl.get('inputs_unchanged_by_evaluate') is False:
        fails.append(('reads_are_identity', 'evaluate() changed the test object or what it observes (datasets, observed results and '
                      'their tests)'))
    for i, name, err in impl.get('op_errors', []):
        run.count('op raised: ' + name)
    run.count('verdict=' + str(impl.get('verdict0')))
    return fails


def nontrivial(case, impl):
    if any(op['op'] in ('table', 'plot', 'full', 'rst', 'counts') for op in case['ops']):
        return case
    return None


def signature(case, clause, detail):
    return clause
