"""C09 — slicing a dataset keeps exactly the selected cells together with their bin edges."""
import itertools

PROPERTY = 'C09'
THEOREMS = ['Slice.normBound_spec', 'Slice.slice_cells', 'Slice.slice_length', 'Slice.slice_bins_edges',
            'Slice.slice_bins_centres', 'Slice.slice_wf', 'Slice.empty_selection_empty', 'Slice.sliceND_length',
            'Slice.sliceND_cells', 'Slice.squeeze_drops_unit_axes']
BUDGET = {'quick': 2500, 'thorough': 20000}
TIME_LIMIT = {'quick': 50, 'thorough': 800}
RULE = ('random shapes up to 4-d (extents 1-6), every axis with N+1 edges or N centres, start/stop in {None} U [-n-2, n+2], '
        'bounds given as Python or numpy integers, 6% of the cases with an axis of 257-1000 cells, slice then squeeze; thorough additionally enumerates ALL shapes with extents <= 3 and ndim <= 3 (1-d: extents <= 6) x '
        'all bins kinds x all such slices; non-trivial = non-empty proper selection or a negative bound; distinct = case hash')
CORRESPONDS = 'Model/Slice.lean (getItem, binsItem/binsSlice, sliceND, squeeze) vs Dataset.__getitem__/squeeze'
TRUSTED = ['harness/props/c09.py (generator, range()-based oracle)', 'vjdriver (compiled Model/Slice.lean)',
           'numpy basic slicing (only exercised through Dataset)']
ASSUMPTIONS = ['unit step; bins given for every axis as N+1 edges or N centres (the property\'s quantifier)',
               'for selections that retain no cell only the emptiness of the value is claimed',
               'squeeze is claimed only for datasets without empty axes']


def bound(rng, n):
    r = rng.random()
    if r < 0.25:
        return None
    return rng.randrange(-n - 2, n + 3)


def gen(rng, tier, run):
    ndim = rng.choice([1, 1, 2, 2, 3, 4])
    shape = [rng.choice([1, 1, 2, 3, 4, 5, 6]) for _ in range(ndim)]
    if rng.random() < 0.06:
        shape = [rng.choice([257, 300, 1000])] + shape[1:2]       # a long axis (beyond the small integers CPython shares)
    kinds = [rng.choice('ec') for _ in range(ndim)]
    slices = [[bound(rng, n), bound(rng, n)] if rng.random() < 0.8 else [None, None] for n in shape]
    # an explicitly written unit step is a unit step too (ds[-2::1])
    kinds = kinds[:len(shape)]
    slices = [[bound(rng, n), bound(rng, n)] if rng.random() < 0.8 else [None, None] for n in shape]
    # an explicitly written unit step is a unit step too (ds[-2::1]); bounds may be numpy integers (np.searchsorted, argmax)
    case = {'shape': shape, 'kinds': kinds, 'slices': slices,
            'steps': [1 if rng.random() < 0.3 else None for _ in shape],
            'npint': rng.choice([None, None, 'int64', 'int32', 'intp'])}
    if rng.random() < 0.15:
        names = [rng.choice(['e', 't', 'a dimension', 'µ', '0']) + str(ax) for ax in range(len(shape))]
        names[rng.randrange(len(shape))] = ''
        case['names'] = names
    if rng.random() < 0.12:
        # the bins of the live dataset are replaced after its construction (edges by centres or centres by edges, as the
        # notebooks do: ds.bins['t'] = ...): the dataset is then sliced as it is, not as it was born
        case['born'] = [rng.choice('ec') for _ in shape]
    return case


def exhaustive(tier, run):
    if tier != 'thorough':
        return
    run.extra['exhaustive'] = True
    run.extra['exhaustive_scope'] = 'all shapes with ndim<=2 extents<=3 (and 1-d extents<=6) x kinds x slices with bounds in {None} U [-n-2,n+2]; ndim=3 with extents<=2'
    def bounds(n):
        return [None] + list(range(-n - 2, n + 3))
    for n in range(1, 7):
        for kind in 'ec':
            for st in bounds(n):
                for sp in bounds(n):
                    yield {'shape': [n], 'kinds': [kind], 'slices': [[st, sp]]}
                    yield {'shape': [n], 'kinds': [kind], 'slices': [[st, sp]], 'steps': [1]}
    for shape in itertools.product([1, 2, 3], repeat=2):
        for kinds in itertools.product('ec', repeat=2):
            axes = [[(a, b) for a in bounds(n) for b in bounds(n)] for n in shape]
            for combo in itertools.product(*axes):
                yield {'shape': list(shape), 'kinds': list(kinds), 'slices': [list(c) for c in combo]}
    for shape in itertools.product([1, 2], repeat=3):
        for kinds in (('e', 'e', 'e'), ('c', 'e', 'c'), ('e', 'c', 'e')):
            axes = [[(a, b) for a in [None, -2, -1, 0, 1, 2] for b in [None, -1, 1, 2]] for n in shape]
            for combo in itertools.product(*axes):
                yield {'shape': list(shape), 'kinds': list(kinds), 'slices': [list(c) for c in combo]}


def shrink(case):
    nd = len(case['shape'])
    for ax in range(nd):
        if nd > 1:
            yield {k: (v[:ax] + v[ax + 1:] if isinstance(v, list) else v) for k, v in case.items()}
    for ax in range(nd):
        if case['shape'][ax] > 1:
            new = {k: (list(v) if isinstance(v, list) else v) for k, v in case.items()}
            new['shape'][ax] -= 1
            yield new
        for part in (0, 1):
            if case['slices'][ax][part] is not None:
                new = {k: ([list(x) if isinstance(x, list) else x for x in v] if isinstance(v, list) else v) for k, v in case.items()}
                new['slices'][ax][part] = None
                yield new


def make_bins(case):
    # the name of a dimension is any string (the empty one included, for one of them)
    names = case.get('names') or [f'b{ax}' for ax in range(len(case['shape']))]
    return [[names[ax], [100 * ax + i for i in range(n + (1 if kind == 'e' else 0))]]
            for ax, (n, kind) in enumerate(zip(case['shape'], case['kinds']))]


def dump(dset):
    import numpy as np
    return {'shape': list(dset.shape), 'value': [int(x) for x in np.asarray(dset.value).flatten()],
            'bins': [[k, [int(x) for x in v]] for k, v in dset.bins.items()]}


def run_impl(case, run):
    from collections import OrderedDict
    import numpy as np
    from valjean.eponine.dataset import Dataset
    size = int(np.prod(case['shape']))
    value = np.arange(size).reshape(case['shape'])
    error = np.arange(size).reshape(case['shape']) + 1000
    bins = OrderedDict((k, np.array(v)) for k, v in make_bins(case))
    if case.get('born'):
        born = OrderedDict((k, np.array(v)) for k, v in make_bins(dict(case, kinds=case['born'])))
        dset = Dataset(value, error, bins=born, name='n', what='w')
        for key, arr in bins.items():
            if len(arr) != len(born[key]):
                dset.bins[key] = arr
        bins = OrderedDict(dset.bins)
    else:
        dset = Dataset(value, error, bins=bins, name='n', what='w')
    before = (value.copy(), error.copy(), [(k, v.copy()) for k, v in bins.items()])
    out = {}
    steps = case.get('steps') or [None] * len(case['slices'])
    def npi(x):
        return x if x is None or not case.get('npint') else getattr(np, case['npint'])(x)
    index = tuple(slice(npi(a), npi(b), st) for (a, b), st in zip(case['slices'], steps))
    if len(index) == 1 and run.rng.random() < 0.5:
        index = index[0]
    try:
        res = dset[index]
        out['slice'] = dump(res)
        out['error_sliced_same'] = bool(np.array_equal(res.error, res.value + 1000))
        out['meta'] = [res.name, res.what]
        try:
            out['squeeze'] = dump(res.squeeze())
        except ValueError:
            out['squeeze'] = 'ValueError'
    except ValueError:
        out['slice'] = 'ValueError'
        out['squeeze'] = 'n/a'
    except Exception as exc:  # pylint: disable=broad-except
        out['slice'] = {'error': f'{type(exc).__name__}: {exc}'[:200]}
        out['squeeze'] = 'n/a'
    try:
        out['squeeze0'] = dump(dset.squeeze())
    except ValueError:
        out['squeeze0'] = 'ValueError'
    except Exception as exc:  # pylint: disable=broad-except
        out['squeeze0'] = {'error': f'{type(exc).__name__}: {exc}'[:200]}
    after_ok = (np.array_equal(dset.value, before[0]) and np.array_equal(dset.error, before[1])
                and list(dset.bins) == [k for k, _ in before[2]]
                and all(np.array_equal(dset.bins[k], v) for k, v in before[2]))
    out['original_unchanged'] = bool(after_ok)
    return out


def run_model(case, driver, run):
    size = 1
    for n in case['shape']:
        size *= n
    return driver.ask('slice', {'shape': case['shape'], 'value': list(range(size)), 'bins': make_bins(case),
                                'slices': case['slices'], 'pinned': False})


def compare(case, impl, model):
    from vcheck.runner import first_diff
    return first_diff({k: impl[k] for k in ('slice', 'squeeze', 'squeeze0')}, model)


def expected(case):
    """range()-based recomputation: selected indices per axis"""
    return [list(range(n))[slice(a, b)] for n, (a, b) in zip(case['shape'], case['slices'])]


def oracle(case, impl, run):
    fails = []
    sel = expected(case)
    empty = any(not s for s in sel)
    run.count(f"ndim={len(case['shape'])}")
    run.count('selection=' + ('empty' if empty else 'all' if all(len(s) == n for s, n in zip(sel, case['shape']))
                              else 'proper'))
    if any((b is not None and b < 0) for ab in case['slices'] for b in ab):
        run.count('negative_bound')
    res = impl['slice']
    if not impl['original_unchanged']:
        fails.append(('original_unchanged', 'value/error/bins of the sliced dataset changed'))
    if not isinstance(res, dict) or 'error' in res:
        fails.append(('slice_no_exception', f'{res!r}'[:200]))
        return fails
    exp_shape = [len(s) for s in sel]
    if res['shape'] != exp_shape:
        fails.append(('slice_cells', f"shape {res['shape']} != {exp_shape}"))
    if empty:
        if res['value']:
            fails.append(('empty_selection_empty', f"{res['value']}"))
        return fails
    strides = []
    acc = 1
    for n in reversed(case['shape']):
        strides.insert(0, acc)
        acc *= n
    exp_val = [sum(i * s for i, s in zip(idx, strides)) for idx in itertools.product(*sel)]
    if res['value'] != exp_val:
        fails.append(('slice_cells', f"value {res['value'][:20]} != {exp_val[:20]}"))
    if not impl.get('error_sliced_same', True):
        fails.append(('slice_cells', 'error array sliced differently from value'))
    if impl.get('meta') != ['n', 'w']:
        fails.append(('slice_meta', f"{impl.get('meta')}"))
    bins = make_bins(case)
    exp_bins = []
    for (name, vals), idx, kind in zip(bins, sel, case['kinds']):
        exp_bins.append([name, vals[idx[0]:idx[-1] + (2 if kind == 'e' else 1)]])
    if res['bins'] != exp_bins:
        bad = [i for i, (a, b) in enumerate(zip(res['bins'], exp_bins)) if a != b]
        ax = bad[0] if bad else 0
        fails.append(('slice_bins_edges' if case['kinds'][ax] == 'e' else 'slice_bins_centres',
                      f"axis {ax} slice {case['slices'][ax]}: {res['bins'][ax] if ax < len(res['bins']) else None} != {exp_bins[ax]}"))
    # squeeze of the (non-empty) result
    sqz = impl['squeeze']
    exp_sq_shape = [k for k in exp_shape if k != 1]
    exp_sq_bins = [b for b, k in zip(exp_bins, exp_shape) if k != 1]
    if not isinstance(sqz, dict) or 'shape' not in sqz:
        fails.append(('squeeze_drops_unit_axes', f'{sqz!r}'[:200]))
    elif sqz['shape'] != exp_sq_shape or sqz['bins'] != exp_sq_bins or sqz['value'] != exp_val:
        fails.append(('squeeze_drops_unit_axes', f"{sqz['shape']} {sqz['bins']} vs {exp_sq_shape} {exp_sq_bins}"[:300]))
    sq0 = impl['squeeze0']
    exp0 = [k for k in case['shape'] if k != 1]
    if not isinstance(sq0, dict) or 'shape' not in sq0 or sq0['shape'] != exp0 or \
            sq0['bins'] != [b for b, k in zip(bins, case['shape']) if k != 1]:
        fails.append(('squeeze_drops_unit_axes', f'original: {sq0!r}'[:200]))
    return fails


def nontrivial(case, impl):
    sel = expected(case)
    if all(sel) and (any(len(s) < n for s, n in zip(sel, case['shape']))
                     or any(b is not None and b < 0 for ab in case['slices'] for b in ab)):
        return case
    return None


def signature(case, clause, detail):
    if clause == 'slice_bins_edges':
        for (a, _), kind, n in zip(case['slices'], case['kinds'], case['shape']):
            if kind == 'e' and a is not None and -n <= a < 0:
                return 'A10:negative-start-on-edges-axis'
    return clause
