"""C12 — a rendered report shows a failure mark exactly for the results that failed."""
import itertools
from props import c18

PROPERTY = 'C12'
THEOREMS = ['Table.mark_iff_false', 'Table.stats_empty_no_mark', 'Table.student_rows_eq_failing', 'Table.fullTable_marks_failing',
            'Table.readRow_dataRow', 'Table.strip_padLeft', 'Table.highlight_strip', 'Table.slice_aligned',
            'Table.join_aligned', 'Table.c12_pinned_refuted']
BUDGET = {'quick': 400, 'thorough': 6000}
TIME_LIMIT = {'quick': 55, 'thorough': 900}
RULE = ('one result of every kind with a built-in tabular or textual representation (equal, approx-equal, Student, '
        'Bonferroni, Holm-Bonferroni, metadata, statistics of tasks / tests / tests by labels, failed evaluation), datasets '
        'of shape () to 3-d with bins as edges or centres and a chosen failing pattern (none / one / several / all bins, 1-3 '
        'compared datasets), rendered at all six verbosities with the Table, FullTable and Full representers; every table is '
        'written as reST, parsed back with docutils, sliced and joined; with the Table representers the result and a failed '
        'evaluation of the same test are also formatted by one Rst object (Rst.format_result) in either order and compared '
        'with what new Rst objects write; non-trivial = a failing result or a table; '
        'distinct = case hash')
CORRESPONDS = ('Model/Table.lean: render (builders + verbosity dispatch: templates, shown rows, highlight matrix), tabularize / '
               'formatRows / readRow (reST text, character for character), Template.slice / join vs table_repr.py, '
               'representation.py, rst.RstTable, templates.TableTemplate')
TRUSTED = ['harness/props/c12.py (generator, abstraction of templates to (rows, highlight matrix), label recomputation)',
           'vjdriver (compiled Model/Table.lean)', 'docutils 0.18 (validity of the written tables is checked with it on the '
           'implementation, not proved)', 'number formatting (Python format) is applied by the harness with the code\'s own format string']
ASSUMPTIONS = ['with the FullTable / Full representers a Bonferroni-type rendering contains the rendering of its first test: each '
               'part obeys the rule for its own result',
               'plots carry no failure mark by construction (PlotTemplate has no highlight): only table and text templates are inspected',
               'a statistics result with no observed task / test at all is False but has nothing to highlight: known finding, see known_findings.json',
               'read-back is claimed for cells that are non-empty after stripping and contain no newline (SafeCells)']

KINDS = ['equal', 'approx', 'student', 'student', 'bonf', 'holm', 'metadata', 'tasks', 'tests', 'bylabels', 'failed']


def gen(rng, tier, run):
    kind = rng.choice(KINDS)
    case = {'kind': kind, 'rep': rng.choice(['table', 'table', 'fulltable', 'full'])}
    if rng.random() < 0.3:
        # the message of a failed evaluation is whatever str(exception) gives: empty for a bare assert, several lines, markup
        case['failmsg'] = rng.choice(['', '', 'two\nlines', 'with `backquote', ' '])
    if kind in ('tasks', 'tests', 'bylabels'):
        sub = c18.gen(rng, tier, run)
        if kind == 'bylabels' and not sub['byLabels']:
            sub['byLabels'] = ['meal']
        mode = rng.random()
        for tsk in sub['tasks']:
            if mode < 0.3:                      # everything fine
                tsk['status'] = 3
                for res in tsk['results'] or []:
                    res['verdict'] = True
            elif mode < 0.45:                   # nothing fine
                tsk['status'] = rng.choice([4, 5])
                for res in tsk['results'] or []:
                    res['verdict'] = False
            # task names are unique in a real job
        for i, tsk in enumerate(sub['tasks']):
            tsk['name'] = i
        case.update(sub)
    elif kind == 'metadata':
        keys = ['a', 'b', 'c', 'd']
        nsamp = rng.choice([2, 3])
        same = rng.random() < 0.4
        base = {k: rng.choice([1, 2, 'x']) for k in keys}
        case['md'] = [dict(base) if same else {k: (base[k] if rng.random() < 0.7 else rng.choice([7, 'y']))
                                                for k in keys if rng.random() < 0.9} for _ in range(nsamp)]
    else:
        shape = rng.choice([[], [1], [3], [6], [2, 3], [2, 2, 2], [1, 4], [3, 1]])
        size = 1
        for n in shape:
            size *= n
        case['shape'] = shape
        case['kinds'] = [rng.choice('ec') for _ in shape]
        nds = rng.choice([1, 1, 2, 3])
        pattern = rng.choice(['none', 'none', 'one', 'several', 'all'])
        case['fail'] = []
        for _ in range(nds):
            if pattern == 'none':
                bad = []
            elif pattern == 'one':
                bad = [rng.randrange(size)]
            elif pattern == 'several':
                bad = [i for i in range(size) if rng.random() < 0.4]
            else:
                bad = list(range(size))
            case['fail'].append(bad)
        case['alpha'] = rng.choice([0.01, 0.05])
    case['slice'] = [rng.randrange(0, 4), rng.randrange(0, 7)]
    case['order'] = rng.choice(['C', 'C', 'F'])
    if case['rep'] == 'full' and len(case.get('shape', [])) >= 2 and 1 in case['shape']:
        # the plot side of FullRepresenter raises for N-d datasets with unit axes (they are meant to be squeezed first);
        # outside the table / text rendering this property is about
        case['rep'] = 'fulltable'
    return case


def shrink(case):
    if case['kind'] in ('tasks', 'tests', 'bylabels'):
        for sub in c18.shrink({'tasks': case['tasks'], 'byLabels': case['byLabels']}):
            if case['kind'] == 'bylabels' and not sub['byLabels']:
                continue
            new = dict(case, **sub)
            yield new
    elif 'fail' in case and len(case['fail']) > 1:
        for i in range(len(case['fail'])):
            yield dict(case, fail=case['fail'][:i] + case['fail'][i + 1:])


def fmt_num(x):
    return f'{x:.4g}'


def expected_labels(case):
    """bin labels of every cell, per non-trivial dimension (recomputed from the definition)"""
    shape = case['shape']
    dims = [ax for ax, n in enumerate(shape) if n >= 2]
    labels = []
    for idx in itertools.product(*[range(n) for n in shape]):
        row = []
        for ax in dims:
            i = idx[ax]
            if case['kinds'][ax] == 'e':
                row.append(f'{fmt_num(10.0 * ax + i)} - {fmt_num(10.0 * ax + i + 1)}')
            else:
                row.append(fmt_num(10.0 * ax + i + 0.5))
        labels.append(row)
    return len(dims), labels


def build(case):
    from collections import OrderedDict
    import numpy as np
    from valjean.eponine.dataset import Dataset
    from valjean.gavroche import test as gtest
    from valjean.gavroche.diagnostics import stats
    from valjean.gavroche.diagnostics.metadata import TestMetadata
    from valjean.gavroche.stat_tests.student import TestStudent
    from valjean.gavroche.stat_tests.bonferroni import TestBonferroni, TestHolmBonferroni
    kind = case['kind']
    if kind in ('tasks', 'tests', 'bylabels'):
        task_results, _fps = c18.build_task_results(case)
        if kind == 'tasks':
            return stats.TestStatsTasks(name='s', task_results=task_results)
        if kind == 'tests':
            return stats.TestStatsTests(name='s', task_results=task_results)
        return stats.TestStatsTestsByLabels(name='s', task_results=task_results, by_labels=tuple(case['byLabels']))
    if kind == 'metadata':
        return TestMetadata({f'd{i}': md for i, md in enumerate(case['md'])}, name='md')
    shape = case['shape']
    size = 1
    for n in shape:
        size *= n

    def mkds(vals, errs, name):
        bins = OrderedDict()
        for ax, (n, knd) in enumerate(zip(shape, case['kinds'])):
            bins[f'b{ax}'] = (10.0 * ax + np.arange(n + 1, dtype=float)) if knd == 'e' else (10.0 * ax + np.arange(n, dtype=float) + 0.5)
        if shape:
            val, err = np.array(vals, dtype=float).reshape(shape), np.array(errs, dtype=float).reshape(shape)
            if case.get('order') == 'F':         # same content, Fortran memory order
                val, err = np.asfortranarray(val), np.asfortranarray(err)
            return Dataset(val, err, bins=bins, name=name)
        return Dataset(np.float64(vals[0]), np.float64(errs[0]), name=name)
    ref_v = [i + 0.25 for i in range(size)]
    errs = [0.5] * size
    ref = mkds(ref_v, errs, 'ref')
    dss = []
    for di, bad in enumerate(case['fail']):
        vals = [v + (100.0 + di if i in bad else 0.0) for i, v in enumerate(ref_v)]
        dss.append(mkds(vals, errs, f'ds{di}'))
    if kind in ('equal', 'failed'):
        return gtest.TestEqual(ref, *dss, name='eq')
    if kind == 'approx':
        return gtest.TestApproxEqual(ref, *dss, name='ap')
    if kind == 'student':
        return TestStudent(ref, *dss, name='st', alpha=case['alpha'])
    if kind == 'bonf':
        return TestBonferroni(name='bf', test=TestStudent(ref, *dss, name='st', ndf=20), alpha=case['alpha'])
    if kind == 'holm':
        return TestHolmBonferroni(name='hb', test=TestStudent(ref, *dss, name='st', ndf=20), alpha=case['alpha'])
    raise ValueError(kind)


def masks_of(case, res):
    """the abstract result handed to the model, read from the real result object"""
    import numpy as np
    from valjean.cosette.task import TaskStatus
    from valjean.gavroche.diagnostics.stats import TestOutcome
    kind = case['kind']
    out = {'kind': kind, 'masks': [], 'nbins': 0, 'nb': 0, 'scalar': False, 'nlabels': 0, 'missing': False}
    if kind in ('equal', 'approx', 'student'):
        flags = {'equal': lambda: res.equal, 'approx': lambda: res.approx_equal,
                 'student': lambda: list(np.asarray(res.oracles()).reshape(len(res.test.datasets), -1))}[kind]()
        out['masks'] = [[bool(x) for x in np.asarray(f).flatten()] for f in flags]
        out['nbins'] = int(np.asarray(res.test.dsref.value).size)
        out['nb'] = len([n for n in case['shape'] if n >= 2])
        out['scalar'] = not case['shape']
    elif kind in ('bonf', 'holm'):
        out['masks'] = [[bool(x) for x in res.oracles()]]
    elif kind in ('tasks', 'tests'):
        ok = TaskStatus.DONE if kind == 'tasks' else TestOutcome.SUCCESS
        order = [ok] + [s for s in ok.__class__ if s != ok]
        out['kind'] = 'stats'
        out['masks'] = [[s == ok for s in order if len(res.classify.get(s, ())) != 0]]
    elif kind == 'bylabels':
        out['kind'] = 'byLabels'
        out['masks'] = [[bool(x) for x in res.oracles()]]
        out['nlabels'] = len(res.test.by_labels)
        out['missing'] = res.nb_missing_labels() != 0
    elif kind == 'metadata':
        samples = list(res.test.dmd)
        out['masks'] = [[bool(res.dict_res[k][s]) for s in samples] for k in res.test.all_md.keys()]
    elif kind == 'failed':
        pass
    return out


def format_val(val, num_fmt='{:11.6g}'):
    import numpy as np
    try:
        type_ = val.dtype.type
    except AttributeError:
        return str(val)
    if issubclass(type_, (float, np.inexact)):
        return num_fmt.format(val)
    return str(val)


def table_cells(tmpl):
    """formatted cells (rows) and highlight matrix (rows) of a TableTemplate, independently of RstTable"""
    import numpy as np
    # rows by joint C-order indexing of all columns (the order in which RstTable writes them is the memory order of the
    # arrays, which the property does not fix: see the comparison of sorted rows for Fortran-ordered datasets)
    try:
        cols = [np.asarray(c).flatten() for c in np.broadcast_arrays(*[np.asarray(c) for c in tmpl.columns])]
        hls = [np.asarray(h).flatten() for h in np.broadcast_arrays(*[np.asarray(h) for h in tmpl.highlights])]
    except ValueError:
        cols = [np.asarray(c).flatten() for c in tmpl.columns]
        hls = [np.asarray(h).flatten() for h in tmpl.highlights]
    nrows = cols[0].size
    rows = [[format_val(col[i]) for col in cols] for i in range(nrows)]
    hl = [[bool(h[i]) for h in hls] for i in range(min(nrows, min(h.size for h in hls)))]
    return rows, hl, [h.size for h in hls]


def row_ids(case, res, tmpl, rows):
    import numpy as np
    kind = case['kind']
    if kind in ('equal', 'approx', 'student'):
        nb = len([n for n in case['shape'] if n >= 2])
        col = np.asarray(tmpl.columns[nb]).flatten()
        return [int(round(float(v) - 0.25)) for v in col]
    if kind == 'bylabels':
        keys = [tuple(str(v) for v in r['labels']) for r in res.classify]     # label values need not be text
        nlab = len(res.test.by_labels)
        ids = []
        for i in range(len(rows)):
            lab = tuple(str(np.asarray(tmpl.columns[c], dtype=object).flatten()[i]) for c in range(nlab))
            ids.append(keys.index(lab) if lab in keys else -1)
        return ids
    if kind == 'metadata':
        keys = list(res.test.all_md.keys())
        first = [str(x) for x in np.asarray(tmpl.columns[0], dtype=object).flatten()]
        if first and first[0] in ('Metadata:', 'Failed metadata:'):
            return [0]
        return [keys.index(k) if k in keys else -1 for k in first]
    return list(range(len(rows)))


def docutils_cells(text):
    """parse the reST text with docutils; returns (header cells, body rows, number of system messages)"""
    import docutils.core
    import docutils.nodes as nodes
    import docutils.utils
    from docutils.parsers.rst import roles
    doc = docutils.core.publish_doctree(text, settings_overrides={'report_level': 5, 'halt_level': 5, 'warning_stream': False})
    msgs = len(list(doc.traverse(nodes.system_message)))
    tables = list(doc.traverse(nodes.table))
    if len(tables) != 1:
        return None, None, msgs, len(tables)
    tbl = tables[0]
    head = [[e.astext() for e in row.traverse(nodes.entry)] for row in tbl.traverse(nodes.thead)[0].traverse(nodes.row)] if list(tbl.traverse(nodes.thead)) else []
    body = []
    for row in list(tbl.traverse(nodes.tbody))[0].traverse(nodes.row):
        cells = []
        for ent in row.traverse(nodes.entry):
            marked = bool(list(ent.traverse(nodes.inline)))
            cells.append([ent.astext(), marked])
        body.append(cells)
    return head, body, msgs, 1


def run_impl(case, run):
    import logging
    import warnings
    import numpy as np
    warnings.simplefilter('ignore')
    np.seterr(all='ignore')
    logging.disable(logging.CRITICAL)
    from valjean.gavroche.test import TestResultFailed
    from valjean.javert import representation as rep
    from valjean.javert.rst import RstTable
    from valjean.javert.templates import TableTemplate, TextTemplate
    from valjean.javert.verbosity import Verbosity
    out = {}
    try:
        test = build(case)
        res = TestResultFailed(test, case.get('failmsg', 'scripted failure')) if case['kind'] == 'failed' else test.evaluate()
        out['verdict'] = bool(res)
        out['abstract'] = masks_of(case, res)
        if case['kind'] in ('bonf', 'holm'):
            first = res.first_test_res
            out['first'] = {'verdict': bool(first),
                            'abstract': masks_of(dict(case, kind='student'), first)}
        representer = {'table': rep.TableRepresenter, 'fulltable': rep.FullTableRepresenter, 'full': rep.FullRepresenter}[case['rep']]()
        out['renders'] = []
        out['tables'] = []
        for verb in range(6):
            templates = rep.Representation(representer, verbosity=Verbosity(verb))(res)
            outs = []
            for tmpl in templates:
                if isinstance(tmpl, TextTemplate):
                    outs.append(['text', ':hl:`' in tmpl.text])
                elif isinstance(tmpl, TableTemplate):
                    rows, hl, hlsizes = table_cells(tmpl)
                    sub = case if (case['kind'] not in ('bonf', 'holm') or len(no_plots(outs)) == 0) else dict(case, kind='student')
                    subres = res if sub is case else res.first_test_res
                    ids = row_ids(sub, subres, tmpl, rows)
                    outs.append(['table', ids, hl])
                    text = str(RstTable(tmpl))
                    entry = {'verb': verb, 'headers': list(tmpl.headers), 'rows': rows, 'hl': hl, 'hlsizes': hlsizes,
                             'text': text, 'ids': ids, 'kind': sub['kind']}
                    head, body, msgs, ntab = docutils_cells(text)
                    entry['docutils'] = {'head': head, 'body': body, 'messages': msgs, 'tables': ntab}
                    # the cells of the data rows: values / errors / labels of the bins they claim to show
                    if sub['kind'] in ('equal', 'approx', 'student'):
                        entry['cols'] = [[format_val(x) for x in np.asarray(c).flatten()] for c in tmpl.columns]
                    # slicing and joining (1-d columns)
                    if all(isinstance(c, np.ndarray) and c.ndim == 1 for c in tmpl.columns) and len(out['tables']) < 3:
                        a, b = case['slice']
                        try:
                            sl = tmpl[a:b]
                            srows, shl, ssz = table_cells(sl) if sl.columns[0].size else ([], [], [0])
                            entry['slice'] = {'a': a, 'b': b, 'rows': srows, 'hl': shl, 'hlsizes': ssz,
                                              'text_rows': docutils_cells(str(RstTable(sl)))[1] if sl.columns[0].size else []}
                            # a single row picked by an integer (negative ones included)
                            nrows = tmpl.columns[0].size
                            idx = case['slice'][1] % (2 * nrows) - nrows if nrows else 0
                            one = tmpl[idx]
                            orows, ohl, osz = table_cells(one)
                            entry['index'] = {'i': idx, 'rows': orows, 'hl': ohl, 'hlsizes': osz,
                                              'text_rows': docutils_cells(str(RstTable(one)))[1]}
                        except Exception as exc:  # pylint: disable=broad-except
                            entry['slice_error'] = f'{type(exc).__name__}: {exc}'[:160]
                    # joining: any table whose columns are flat (arrays or lists; the by-labels tables hold lists)
                    if all(np.ndim(c) == 1 for c in tmpl.columns) and len(out['tables']) < 3:
                        try:
                            j = tmpl.copy()
                            j.join(tmpl)
                            jrows, jhl, jsz = table_cells(j)
                            entry['join'] = {'rows': jrows, 'hl': jhl, 'hlsizes': jsz}
                        except Exception as exc:  # pylint: disable=broad-except
                            entry['slice_error'] = f'join: {type(exc).__name__}: {exc}'[:160]
                    out['tables'].append(entry)
                else:
                    outs.append(['plot'])
            out['renders'].append(outs)
        # what a rendering returns belongs to the caller: text templates joined in place (TextTemplate.join) must not show in
        # the next rendering
        out['rerender_same'] = True
        for verb in range(1, 6):
            repn = rep.Representation(representer, verbosity=Verbosity(verb))
            first = [t.text for t in repn(res) if isinstance(t, TextTemplate)]
            got = repn(res)
            for tmpl in got:
                if isinstance(tmpl, TextTemplate):
                    tmpl.join(TextTemplate('appended by the caller :hl:`KO`'))
            second = [t.text for t in repn(res) if isinstance(t, TextTemplate)]
            if first != second:
                out['rerender_same'] = False
        # the report formatter itself (Rst.format_result), reused for a second result of the same test (same fingerprint)
        # with another outcome: what it writes does not depend on what it wrote before
        if case['rep'] in ('table', 'fulltable'):
            from valjean.javert.rst import Rst
            twin = test.evaluate() if case['kind'] == 'failed' else TestResultFailed(test, case.get('failmsg', 'scripted failure'))
            seq = [twin, res] if case.get('slice', [0, 0])[0] % 2 else [res, twin]
            out['rst'] = []
            for verb in range(1, 6):
                def mk():
                    return Rst(rep.Representation(representer, verbosity=Verbosity(verb)))
                shared = mk()
                reused = ['\n'.join(str(x) for x in shared.format_result(r)) for r in seq]
                fresh = ['\n'.join(str(x) for x in mk().format_result(r)) for r in seq]
                out['rst'].append({'verb': verb, 'same': reused == fresh, 'marks': [':hl:`' in t for t in reused],
                                   'empty': [not t for t in reused], 'verdicts': [bool(r) for r in seq],
                                   'is_res': [r is res for r in seq]})
        if case['kind'] in ('equal', 'approx', 'student', 'bonf', 'holm') and case['kind'] != 'failed':
            out['values'] = {'ref': [format_val(x) for x in np.asarray(res.test.dsref.value if case['kind'] not in ('bonf', 'holm') else res.first_test_res.test.dsref.value).flatten()]}
            tst = res.test if case['kind'] not in ('bonf', 'holm') else res.first_test_res.test
            out['values']['ds'] = [[format_val(x) for x in np.asarray(d.value).flatten()] for d in tst.datasets]
            out['values']['err'] = [[format_val(x) for x in np.asarray(d.error).flatten()] for d in tst.datasets]
            out['values']['referr'] = [format_val(x) for x in np.asarray(tst.dsref.error).flatten()]
    except Exception as exc:  # pylint: disable=broad-except
        import traceback
        out['exception'] = f'{type(exc).__name__}: {exc}'[:200] + ' @ ' + traceback.format_exc().splitlines()[-3].strip()[:120]
    finally:
        logging.disable(logging.NOTSET)
    _LAST['impl'] = out
    return out


_LAST = {}


def no_plots(outs):
    return [o for o in outs if o[0] != 'plot']


def run_model(case, driver, run):
    impl = _LAST.get('impl') or {}
    if 'abstract' not in impl or 'exception' in impl:
        return {'skipped': True}
    model = {'main': driver.ask('table', dict(impl['abstract'], op='render', verbs=list(range(6))))}
    if 'first' in impl:
        model['first'] = driver.ask('table', dict(impl['first']['abstract'], op='render', verbs=list(range(6))))
    model['rst'] = []
    for entry in impl['tables']:
        nrows = min([len(entry['rows'])] + entry['hlsizes'])
        req = {'op': 'rst', 'headers': entry['headers'], 'rows': entry['rows'][:nrows],
               'hl': entry['hl'][:nrows], 'indent': 4}
        ans = driver.ask('table', req)
        item = {'rst': ans}
        if 'slice' in entry:
            cols = [list(c) for c in zip(*entry['rows'])] if entry['rows'] else [[] for _ in entry['headers']]
            hlc = [list(c) for c in zip(*entry['hl'])] if entry['hl'] else [[] for _ in entry['headers']]
            item['slice'] = driver.ask('table', {'op': 'slice', 'headers': entry['headers'], 'columns': cols, 'hl': hlc,
                                                 'a': entry['slice']['a'], 'b': entry['slice']['b']})
            item['join'] = driver.ask('table', {'op': 'join', 'headers': entry['headers'], 'columns': cols, 'hl': hlc,
                                                'headers2': entry['headers'], 'columns2': cols, 'hl2': hlc})
        model['rst'].append(item)
    return model


def expected_renders(case, impl, model):
    """what the representer is expected to return, from the model's renderings of the result (and of its first test)"""
    exp = []
    for verb in range(6):
        main = model['main']['outs'][verb]
        if case['kind'] in ('bonf', 'holm') and case['rep'] in ('fulltable', 'full') and verb != 0:
            fverb = verb - 1 if impl['verdict'] else verb
            main = main + model['first']['outs'][fverb]
        exp.append(main)
    return exp


def compare(case, impl, model):
    if 'exception' in impl:
        return None
    if model.get('skipped'):
        return 'model skipped'
    if impl['verdict'] != model['main']['verdict']:
        return f"verdict: impl={impl['verdict']} model={model['main']['verdict']}"
    exp = expected_renders(case, impl, model)
    for verb in range(6):
        got = no_plots(impl['renders'][verb])
        if got != exp[verb]:
            return f'verbosity {verb}: impl={got!r}'[:400] + f' model={exp[verb]!r}'[:400]
    for entry, item in zip(impl['tables'], model['rst']):
        lines = '\n'.join(item['rst']['lines'])
        text = '.. role:: hl\n\n.. table::\n    :widths: auto\n\n' + lines + '\n'
        if text != entry['text'] and (case.get('order') != 'F' or sorted(text.split('\n')) != sorted(entry['text'].split('\n'))):
            return f"reST text at verbosity {entry['verb']}: impl={entry['text']!r}"[:500] + f' model={text!r}'[:500]
        if 'slice' in entry:
            cols = [list(c) for c in zip(*entry['slice']['rows'])] if entry['slice']['rows'] else [[] for _ in entry['headers']]
            hlc = [list(c) for c in zip(*entry['slice']['hl'])] if entry['slice']['hl'] else [[] for _ in entry['headers']]
            if cols != item['slice']['columns'] or hlc != item['slice']['hl']:
                return f"slice [{entry['slice']['a']}:{entry['slice']['b']}]: impl cols={cols} hl={hlc} model={item['slice']}"[:600]
            if 'join' not in entry:
                continue
            jcols = [list(c) for c in zip(*entry['join']['rows'])]
            jhl = [list(c) for c in zip(*entry['join']['hl'])] if entry['join']['hl'] else []
            if jcols != item['join']['columns'] or jhl != item['join']['hl']:
                return f"join: impl hl={jhl} model hl={item['join']['hl']}"[:600]
    return None


def has_mark(outs):
    for o in outs:
        if o[0] == 'text' and o[1]:
            return True
        if o[0] == 'table' and any(any(r) for r in o[2]):
            return True
    return False


def oracle(case, impl, run):
    run.count('kind=' + case['kind'])
    run.count('rep=' + case['rep'])
    if 'exception' in impl:
        if impl['exception'].startswith('TestStatsTestsByLabelsException'):
            return []
        return [('no_exception', impl['exception'])]
    fails = []
    verdict = impl['verdict']
    run.count('verdict=' + str(verdict))
    if impl.get('rerender_same') is False:
        fails.append(('history_independent', 'after the caller joined text to the templates of a first rendering, a second '
                      'rendering of the same result is different'))
    for entry in impl.get('rst', []):
        if not entry['same']:
            fails.append(('history_independent', f"verbosity {entry['verb']}: Rst.format_result on an Rst object that formatted another "
                          'result of the same test before does not write what a new Rst object writes'))
        for mark, empty, verdict_, is_res in zip(entry['marks'], entry['empty'], entry['verdicts'], entry['is_res']):
            if not is_res and not empty and mark != (not verdict_):
                fails.append(('mark_iff_false', f"verbosity {entry['verb']}: Rst.format_result of a failed evaluation / its normal "
                              f'result: result {verdict_}, mark {mark}'))
    composite = case['kind'] in ('bonf', 'holm') and case['rep'] in ('fulltable', 'full')
    empty_stats = case['kind'] in ('tasks', 'tests') and impl['abstract']['masks'] == [[]]
    for verb in range(1, 6):
        outs = no_plots(impl['renders'][verb])
        if composite:
            own = outs[:1]
            rest = outs[1:]
            if has_mark(own) != (not verdict):
                fails.append(('mark_iff_false', f'verbosity {verb}: result {verdict}, mark in its own table/text: {has_mark(own)}'))
            if has_mark(rest) and impl['first']['verdict']:
                fails.append(('mark_iff_false', f'verbosity {verb}: the first test passed but its rendering carries a mark'))
            if rest and not impl['first']['verdict'] and not has_mark(rest):
                fails.append(('mark_iff_false', f'verbosity {verb}: the first test failed but its rendering carries no mark'))
            continue
        if has_mark(outs) != (not verdict):
            if empty_stats and not verdict and not has_mark(outs):
                fails.append(('stats_empty_no_mark', 'a statistics result with no observed task/test is False but its table has no failure mark'))
            else:
                fails.append(('mark_iff_false', f'verbosity {verb}: result is {verdict} but mark present = {has_mark(outs)}; rendering {outs!r}'[:300]))
    # detailed tables
    nb, labels = expected_labels(case) if 'shape' in case else (0, [])
    for entry in impl['tables']:
        if any(sz != len(entry['rows']) for sz in entry['hlsizes']):
            fails.append(('table_wf', f"verbosity {entry['verb']}: {len(entry['rows'])} rows but highlight columns of sizes {entry['hlsizes']}"))
        doc = entry['docutils']
        if doc['tables'] != 1 or doc['messages'] != 0:
            fails.append(('rst_valid', f"verbosity {entry['verb']}: docutils found {doc['tables']} table(s), {doc['messages']} message(s)"))
        elif doc['body'] is not None:
            exp = [[[c.strip(), h] for c, h in zip(r, hr)] for r, hr in zip(entry['rows'], entry['hl'])]
            got = [[[c[0].strip(), c[1]] for c in r] for r in doc['body']]
            safe = all(c.strip() and '\n' not in c for r in entry['rows'] for c in r)
            if not exp and got and len(got) == 1 and all(c == ['', False] for c in got[0]):
                got = []        # a table without rows is written with one blank body line (reST cannot express an empty body)
            if case.get('order') == 'F':
                got, exp = sorted(got), sorted(exp)      # the rows of Fortran-ordered datasets are written in memory order
            if safe and got != exp:
                bad = next((i for i, (a, b) in enumerate(zip(got, exp)) if a != b), min(len(got), len(exp)))
                fails.append(('readback', f"verbosity {entry['verb']}: row {bad} of the written table reads back as "
                              f"{got[bad] if bad < len(got) else None}, input {exp[bad] if bad < len(exp) else None} "
                              f"({len(got)} rows read, {len(exp)} given)"))
            heads = [h.strip() for h in entry['headers']]
            if doc['head'] and [c.strip() for c in doc['head'][0]] != heads and all(heads):
                fails.append(('readback', f"verbosity {entry['verb']}: headers read back as {doc['head'][0]}, input {heads}"))
        if 'slice_error' in entry:
            fails.append(('slice_aligned', entry['slice_error']))
        if 'slice' in entry:
            a, b = entry['slice']['a'], entry['slice']['b']
            if entry['slice']['rows'] != entry['rows'][a:b] or entry['slice']['hl'] != entry['hl'][a:b]:
                fails.append(('slice_aligned', f'[{a}:{b}] of the table at verbosity {entry["verb"]}: highlights {entry["slice"]["hl"]}, '
                              f'expected {entry["hl"][a:b]}'))
            elif entry['slice']['rows']:
                exp = [[[c.strip(), h] for c, h in zip(r, hr)] for r, hr in zip(entry['rows'][a:b], entry['hl'][a:b])]
                got = [[[c[0].strip(), c[1]] for c in r] for r in (entry['slice']['text_rows'] or [])]
                if got != exp and all(c.strip() for r in entry['rows'] for c in r):
                    fails.append(('slice_aligned', f'[{a}:{b}]: the written slice reads back as {got}, expected {exp}'[:400]))
            if 'index' in entry:
                i = entry['index']['i']
                want_rows, want_hl = [entry['rows'][i]], [entry['hl'][i]]
                if entry['index']['rows'] != want_rows or entry['index']['hl'] != want_hl:
                    fails.append(('slice_aligned', f'table[{i}] at verbosity {entry["verb"]}: rows {entry["index"]["rows"]} highlights '
                                  f'{entry["index"]["hl"]}, expected {want_rows} {want_hl}'[:400]))
                else:
                    exp = [[[c.strip(), h] for c, h in zip(want_rows[0], want_hl[0])]]
                    got = [[[c[0].strip(), c[1]] for c in r] for r in (entry['index']['text_rows'] or [])]
                    if got != exp and all(c.strip() for c in want_rows[0]):
                        fails.append(('slice_aligned', f'table[{i}]: the written row reads back as {got}, expected {exp}'[:400]))
        if 'join' in entry and (entry['join']['rows'] != entry['rows'] * 2 or entry['join']['hl'] != entry['hl'] * 2):
            fails.append(('join_aligned', f'joining the table at verbosity {entry["verb"]} with itself: highlights {entry["join"]["hl"]}'[:300]))
        # the rows of a detailed table are the bins they claim to be
        if entry['kind'] in ('equal', 'approx', 'student') and 'values' in impl:
            masks = (impl['first']['abstract'] if case['kind'] in ('bonf', 'holm') else impl['abstract'])['masks']
            step = 2 if entry['kind'] != 'student' else 4
            pre = nb + (1 if entry['kind'] != 'student' else 2)
            for pos, i in enumerate(entry['ids']):
                if not 0 <= i < len(labels):
                    fails.append(('student_rows_eq_failing', f'row {pos}: unknown bin'))
                    continue
                cols = entry['cols']
                if [cols[c][pos] for c in range(nb)] != labels[i]:
                    fails.append(('row_shows_its_bin', f'row {pos} (bin {i}): labels {[cols[c][pos] for c in range(nb)]}, expected {labels[i]}'))
                for d in range(len(masks)):
                    vcol = pre + d * step
                    if cols[vcol][pos] != impl['values']['ds'][d][i]:
                        fails.append(('row_shows_its_bin', f'row {pos} (bin {i}): value of dataset {d} {cols[vcol][pos]}, expected {impl["values"]["ds"][d][i]}'))
                    if entry['kind'] == 'student' and cols[vcol + 1][pos] != impl['values']['err'][d][i]:
                        fails.append(('row_shows_its_bin', f'row {pos} (bin {i}): error of dataset {d}'))
                    if entry['hl'][pos][vcol + step - 1] != (not masks[d][i]):
                        fails.append(('fullTable_marks_failing', f'row {pos} (bin {i}), dataset {d}: highlighted={entry["hl"][pos][vcol + step - 1]}, passed={masks[d][i]}'))
    return fails[:8]


def nontrivial(case, impl):
    if 'exception' in impl:
        return None
    if not impl['verdict'] or impl['tables']:
        return case
    return None


def signature(case, clause, detail):
    return clause
