"""C18 — diagnostic statistics count every task and every test result exactly once."""
import copy

PROPERTY = 'C18'
THEOREMS = ['Diag.tasks_partition', 'Diag.tests_partition', 'Diag.testEvents_spec', 'Diag.tasks_success_iff',
            'Diag.tests_success_iff', 'Diag.labels_row_sum', 'Diag.labels_n', 'Diag.labels_success_iff',
            'Diag.labels_rows_exact', 'Diag.labels_total', 'Diag.carries_unique', 'Diag.rloop_exact']
BUDGET = {'quick': 1500, 'thorough': 30000}
TIME_LIMIT = {'quick': 50, 'thorough': 600}
RULE = ('0-40 task sections with any TaskStatus, with/without a result key, 0-5 stub results each with scripted verdicts '
        'and label dicts over a small pool (missing labels, repeated names/values, sometimes the reserved keys _result / _test_name), label selections of length 1-3; the three summaries are computed from the same sections in an order that varies; '
        'non-trivial = at least two classes populated or a by-labels table with >= 2 rows; distinct = case hash')
CORRESPONDS = ('Model/Diag.lean (evalTasks, evalTests, evalByLabels, bool/oracles/nbMissing) vs '
               'valjean.gavroche.diagnostics.stats.TestStatsTasks/TestStatsTests/TestStatsTestsByLabels')
TRUSTED = ['harness/props/c18.py (generator, stub Test/TestResult classes, recount oracle)',
           'vjdriver (compiled Model/Diag.lean)']
ASSUMPTIONS = ['results are TestResult objects (NOT_A_TEST entries are outside the quantifier)',
               "label values are strings",
               'an empty observation is not constrained (DESIGN.md, C18 interpretation)']

LABELS = ['meal', 'day', 'who', 'x']
VALUES = ['spam', 'egg', 'bacon', 'lunch', 'Wednesday', '']
NUMVALUES = [2.0, 14.06, 3, -0.5, 7, 1e-3]       # label values need not be text (a temperature, a number of batches)


def values(case):
    return NUMVALUES if case.get('numlabels') else VALUES


def vname(case, val):
    vals = values(case)
    found = [i for i, v in enumerate(vals) if type(v) is type(val) and v == val]
    return f'a{found[0]}' if found else f'?{val!r}'


def gen(rng, tier, run):
    ntasks = rng.choice([0, 1, 2, 3, 5, 8, 15, 40])
    ntasks = rng.randrange(0, ntasks + 1)
    labs = rng.sample(LABELS, rng.randrange(1, len(LABELS) + 1))
    all_done = rng.random() < 0.25
    all_ok = rng.random() < 0.3
    tasks = []
    tid = 0
    for i in range(ntasks):
        status = 3 if all_done or rng.random() < 0.5 else rng.randrange(1, 6)
        results = None
        if rng.random() < (0.97 if all_ok else 0.8):
            results = []
            for _ in range(rng.choice([0, 1, 1, 1, 2, 3, 5])):
                tid += 1
                labels = [[lab, rng.randrange(0, rng.choice([1, 2, len(VALUES)]))] for lab in labs if rng.random() < 0.8]
                # the two reserved keys used as labels all the same (the code warns and replaces them)
                if rng.random() < 0.08:
                    labels.append(['_result', rng.randrange(len(VALUES))])
                if rng.random() < 0.05:
                    labels.append(['_test_name', rng.randrange(len(VALUES))])
                rng.shuffle(labels)
                results.append({'verdict': all_ok or rng.random() < 0.6,
                                'name': rng.randrange(0, 6) if rng.random() < 0.3 else 100 + tid,
                                'fp': rng.randrange(0, 3), 'labels': labels})
        tasks.append({'name': i if rng.random() < 0.9 else rng.randrange(0, 3), 'status': status, 'results': results})
    by_labels = None
    if rng.random() < 0.85:
        pool = labs + (['absent'] if rng.random() < 0.1 else [])
        by_labels = [rng.choice(pool) for _ in range(rng.choice([1, 1, 2, 2, 3]))]
        if rng.random() < 0.8:
            by_labels = list(dict.fromkeys(by_labels))
    return {'tasks': tasks, 'byLabels': by_labels, 'numlabels': rng.random() < 0.2}


def shrink(case):
    tasks = case['tasks']
    for i in range(len(tasks)):
        yield {'tasks': tasks[:i] + tasks[i + 1:], 'byLabels': case['byLabels']}
    for i, tsk in enumerate(tasks):
        for j in range(len(tsk['results'] or [])):
            new = copy.deepcopy(tasks)
            del new[i]['results'][j]
            yield {'tasks': new, 'byLabels': case['byLabels']}
    if case['byLabels'] and len(case['byLabels']) > 1:
        for i in range(len(case['byLabels'])):
            yield {'tasks': tasks, 'byLabels': case['byLabels'][:i] + case['byLabels'][i + 1:]}


_CLASSES = {}


def stub_classes():
    if _CLASSES:
        return _CLASSES
    from valjean.gavroche.test import Test, TestResult

    class StubTest(Test):
        '''scripted test'''
        def evaluate(self):
            return None

    class StubResult(TestResult):
        '''scripted result'''
        def __init__(self, test, verdict):
            super().__init__(test)
            self.verdict = verdict

        def __bool__(self):
            return self.verdict

    _CLASSES.update(StubTest=StubTest, StubResult=StubResult)
    return _CLASSES


def build_task_results(case):
    from valjean.cosette.task import TaskStatus
    from valjean.fingerprint import fingerprint
    cls = stub_classes()
    fps = {}
    task_results = []
    for tsk in case['tasks']:
        sec = {'status': TaskStatus(tsk['status'])}
        if tsk['results'] is not None:
            res = []
            for r in tsk['results']:
                test = cls['StubTest'](name=f"t{r['name']}", description=f"d{r['fp']}",
                                       labels={k: values(case)[v] for k, v in r['labels']})
                fps[fingerprint(test)] = r['fp']
                res.append(cls['StubResult'](test, r['verdict']))
            sec['result'] = res
        task_results.append((f"task{tsk['name']}", sec))
    return task_results, fps


def dump_classify(classify, fps):
    out = []
    for key, lst in classify.items():
        out.append([int(key), [[int(str(nf.name).lstrip('task')), None if nf.fingerprint is None else fps[nf.fingerprint]]
                               for nf in lst]])
    return out


def run_impl(case, run):
    from valjean.gavroche.diagnostics import stats
    out = {}
    try:
        task_results, fps = build_task_results(case)

        again = []

        def tasks():
            test = stats.TestStatsTasks(name='s', task_results=task_results)
            first = test.evaluate()
            snap = dump_classify(first.classify, fps)
            res = test.evaluate()              # the same test object once more: what is reported is the second result
            out['tasks'] = dump_classify(res.classify, fps)
            out['tasksBool'] = bool(res)
            if snap != out['tasks'] or dump_classify(first.classify, fps) != snap:
                again.append('tasks')
            from valjean.cosette.task import TaskStatus
            probe(res, 'tasks', TaskStatus, out['tasks'], out['tasksBool'])

        def probe(res, which, statuses, dumped, verdict):
            # asking the summary about every status - those nobody ended with included - changes neither the summary
            # nor its verdict
            for status in statuses:
                try:
                    res.classify[status]
                except KeyError:
                    pass
                res.classify.get(status)
            if dump_classify(res.classify, fps) != dumped or bool(res) != verdict:
                again.append(which + ' (after reading the classification by status)')

        def tests():
            test = stats.TestStatsTests(name='s', task_results=task_results)
            first = test.evaluate()
            snap = dump_classify(first.classify, fps)
            res = test.evaluate()
            out['tests'] = dump_classify(res.classify, fps)
            out['testsBool'] = bool(res)
            if snap != out['tests'] or dump_classify(first.classify, fps) != snap:
                again.append('tests')
            probe(res, 'tests', stats.TestOutcome, out['tests'], out['testsBool'])

        def bylabels():
            if case['byLabels'] is None:
                out['byLabels'] = None
                return
            try:
                test = stats.TestStatsTestsByLabels(name='s', task_results=task_results, by_labels=tuple(case['byLabels']))
                test.evaluate()
                res = test.evaluate()
                out['byLabels'] = {
                    'rows': [[[vname(case, v) for v in row['labels']], row['OK'], row['KO'], row['total']]
                             for row in res.classify],
                    'nLabels': res.n_labels, 'bool': bool(res), 'missing': res.nb_missing_labels(),
                    'oracles': [bool(x) for x in res.oracles()]}
            except stats.TestStatsTestsByLabelsException:
                out['byLabels'] = 'exception'
        # the three summaries are computed from the same environment sections, in an order that varies with the case
        steps = [tasks, tests, bylabels]
        k = (len(case['tasks']) + len(case['byLabels'] or [])) % 6
        order = [[0, 1, 2], [2, 1, 0], [1, 2, 0], [2, 0, 1], [0, 2, 1], [1, 0, 2]][k]
        for i in order:
            steps[i]()
        out['again_differs'] = again
    except Exception as exc:  # pylint: disable=broad-except
        out['error'] = f'{type(exc).__name__}: {exc}'[:300]
    return out


def to_model(case):
    tasks = []
    for tsk in case['tasks']:
        res = None
        if tsk['results'] is not None:
            res = [{'verdict': r['verdict'], 'name': r['name'], 'fp': r['fp'],
                    'labels': [[k, f'a{v}'] for k, v in r['labels']]} for r in tsk['results']]
        tasks.append({'name': tsk['name'], 'status': tsk['status'], 'results': res})
    return {'tasks': tasks, 'byLabels': case['byLabels']}


def run_model(case, driver, run):
    return driver.ask('diag', to_model(case))


def canon(obs):
    obs = copy.deepcopy(obs)
    obs.pop('again_differs', None)       # harness-side observation, not part of the model
    byl = obs.get('byLabels')
    if isinstance(byl, dict):
        order = sorted(range(len(byl['rows'])), key=lambda i: byl['rows'][i])
        byl['rows'] = [byl['rows'][i] for i in order]
        byl['oracles'] = [byl['oracles'][i] for i in order]
    return obs


def compare(case, impl, model):
    from vcheck.runner import first_diff
    return first_diff(canon(impl), canon(model))


def oracle(case, impl, run):
    fails = []
    if 'error' in impl:
        run.count('error')
        return [('no_unexpected_exception', impl['error'])]
    tasks = case['tasks']
    run.count(f'ntasks={min(len(tasks), 10)}' + ('+' if len(tasks) > 10 else ''))
    for which in impl.get('again_differs', []):
        fails.append(('history_independent', f'a second evaluate() on the same {which} summary object gives another result, or '
                      'changes the result returned by the first one'))
    # tasks by status
    cls = {k: v for k, v in impl['tasks']}
    if len(cls) != len(impl['tasks']):
        fails.append(('tasks_partition', 'duplicate status key'))
    for status in range(1, 6):
        exp = [[t['name'], None] for t in tasks if t['status'] == status]
        if cls.get(status, []) != exp:
            fails.append(('tasks_partition', f'status {status}: {cls.get(status)} != {exp}'[:300]))
    if set(cls) - set(range(1, 6)):
        fails.append(('tasks_partition', 'unknown status key'))
    if tasks and impl['tasksBool'] != all(t['status'] == 3 for t in tasks):
        fails.append(('tasks_success_iff', f"bool={impl['tasksBool']}"))
    # tests by outcome
    cls = {k: v for k, v in impl['tests']}
    results = [r for t in tasks for r in (t['results'] or [])]
    exp = {0: [[r['name'], r['fp']] for r in results if r['verdict']],
           1: [[r['name'], r['fp']] for r in results if not r['verdict']],
           2: [[t['name'], None] for t in tasks if t['results'] is None]}
    for outcome in (0, 1, 2, 3):
        if cls.get(outcome, []) != exp.get(outcome, []):
            fails.append(('tests_partition', f'outcome {outcome}: {cls.get(outcome)} != {exp.get(outcome)}'[:300]))
    nevents = len(results) + len(exp[2])
    if nevents and impl['testsBool'] != (not exp[1] and not exp[2]):
        fails.append(('tests_success_iff', f"bool={impl['testsBool']}"))
    run.count(f'classes={len(impl["tasks"])}/{len(impl["tests"])}')
    # by labels
    byl = case['byLabels']
    nontriv = len(impl['tasks']) > 1 or len(impl['tests']) > 1
    if byl is not None:
        got = impl['byLabels']
        present = {k for r in results for k, _ in r['labels']}
        if not results or not set(byl) <= present:
            run.count('bylabels:exception-expected')
            if got != 'exception':
                fails.append(('labels_missing_label_raises', f'{got!r}'[:200]))
        elif not isinstance(got, dict):
            fails.append(('labels_result', f'{got!r}'[:200]))
        else:
            combos = {}
            for r in results:
                dct = dict(r['labels'])
                if all(lab in dct for lab in byl):
                    key = tuple(f'a{dct[lab]}' for lab in byl)
                    okko = combos.setdefault(key, [0, 0])
                    okko[0 if r['verdict'] else 1] += 1
            exp_rows = sorted([list(k), v[0], v[1], v[0] + v[1]] for k, v in combos.items())
            run.count(f'bylabels:rows={min(len(exp_rows), 5)}')
            if len(exp_rows) >= 2:
                nontriv = True
            if sorted(got['rows']) != exp_rows:
                fails.append(('labels_rows', f"{sorted(got['rows'])} != {exp_rows}"[:400]))
            for row in got['rows']:
                if row[1] + row[2] != row[3]:
                    fails.append(('labels_row_sum', f'{row}'))
            carrying = sum(v[0] + v[1] for v in combos.values())
            if got['missing'] != len(results) - carrying:
                fails.append(('labels_total', f"missing={got['missing']} expected {len(results) - carrying}"))
            if got['bool'] != all(v[1] == 0 for v in combos.values()):
                fails.append(('labels_success_iff', f"bool={got['bool']}"))
    impl['_nontrivial'] = nontriv
    return fails


def nontrivial(case, impl):
    return case if impl.get('_nontrivial') else None
