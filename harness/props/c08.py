"""C08 — dataset arithmetic propagates uncorrelated errors and keeps datasets well formed."""
import struct

PROPERTY = 'C08'
THEOREMS = ['DSet.add_err', 'DSet.sub_err', 'DSet.mul_err_rel', 'DSet.div_err_rel', 'DSet.scalar_scales_err',
            'DSet.opDS_value', 'DSet.opDS_wf', 'DSet.opDS_keeps_left', 'DSet.opDS_err_nonneg', 'DSet.opScalar_err_nonneg',
            'DSet.opArray_err_nonneg', 'DSet.opScalar_wf', 'DSet.opArray_wf', 'DSet.squeeze_wf',
            'DSet.chain_wf_nonneg', 'DSet.c08_pinned_refuted']
BUDGET = {'quick': 1200, 'thorough': 15000}
TIME_LIMIT = {'quick': 50, 'thorough': 800}
RULE = ('chains of 1-8 commands over 2-4 dataset variables: + - * / with a dataset, an ndarray of the same shape, of an '
        'incompatible shape or of a shape that broadcasts the dataset to a larger one, an int or a float (negative and zero included), copy followed by in-place writes into '
        'the arrays and bins of the copy, squeeze; 15% of the cases on masked datasets, with mask() applied again to '
        'masked datasets and to results along the chain; shapes from 0-d to 3-d, bins as edges or centres, sometimes '
        'different names or values; non-trivial = at least one dataset-dataset operation or a negative factor or a '
        'poked copy; distinct = case hash')
CORRESPONDS = 'Model/Dataset.lean (opDS, opScalar, opArray, consistency, squeeze, runCmds) vs Dataset.__add__/__sub__/__mul__/__truediv__/copy/squeeze'
TRUSTED = ['harness/props/c08.py (generator, independent recomputation with the relative-error formulas, memory-sharing probe)',
           'vjdriver (compiled Model/Dataset.lean on IEEE binary64)',
           'numpy elementwise arithmetic (exercised through Dataset; compared bit for bit with the model for arrays)']
ASSUMPTIONS = ['float64 values; array operands have the shape of the dataset or one that cannot be broadcast to it '
               '(numpy broadcasting to a larger shape is not modelled)',
               '0-d datasets (numpy scalars) use libm pow() for **2: errors compared within 4 ulp there, bit-exact elsewhere',
               'bins are given for every axis (squeeze of a dataset without bins raises KeyError: outside the quantifier)',
               'rounding is not modelled by the theorems (exact reals + IEEE special values); it is covered by the bit-exact correspondence',
               'masks: only "the operand is not modified and the result is well formed" is checked (oracle); numpy masked arithmetic is not modelled']

OPS = '+-*/'


def bits(x):
    x = float(x)
    if x != x:
        return 'nan'
    return str(struct.unpack('<Q', struct.pack('<d', x))[0])


def unbits(s):
    if s == 'nan':
        return float('nan')
    return struct.unpack('<d', struct.pack('<Q', int(s)))[0]


def number(rng, nonneg=False):
    r = rng.random()
    if r < 0.12:
        x = 0.0
    elif r < 0.45:
        x = float(rng.randrange(1, 20))
    elif r < 0.85:
        x = rng.uniform(0.01, 100.0)
    elif r < 0.93:
        x = rng.uniform(1, 10) * 10.0 ** rng.randrange(-160, 160)
    else:
        x = rng.choice([0.5, 0.25, 2.0, 1e-300, 1e300, 3.0])
    if not nonneg and rng.random() < 0.4:
        x = -x
    return x


def gen_ds(rng, shape, kinds, tag, names=None, bin_shift=0.0):
    size = 1
    for n in shape:
        size *= n
    return {'shape': list(shape), 'value': [bits(number(rng)) for _ in range(size)],
            'error': [bits(number(rng, True)) for _ in range(size)],
            'bins': [[(names[ax] if names else f'b{ax}'), [bits(10.0 * ax + i + bin_shift) for i in range(n + (1 if k == 'e' else 0))]]
                     for ax, (n, k) in enumerate(zip(shape, kinds))],
            'what': tag}


def gen(rng, tier, run):
    ndim = rng.choice([0, 1, 1, 1, 2, 2, 3])
    shape = [rng.choice([1, 2, 2, 3, 4]) for _ in range(ndim)]
    kinds = [rng.choice('ec') for _ in range(ndim)]
    nvars = rng.choice([2, 2, 3])
    variables = []
    for i in range(nvars):
        r = rng.random()
        shp, names, shift = shape, None, 0.0
        if ndim and r < 0.06:
            shp = list(shape)
            ax = rng.randrange(ndim)
            shp[ax] = shape[ax] + 1
        elif ndim and r < 0.12:
            names = [f'b{ax}' for ax in range(ndim)]
            names[rng.randrange(ndim)] = 'other'
        elif ndim and r < 0.18:
            shift = 0.5
        what = rng.choice(['flux', 'flux', 'rate'])
        variables.append(gen_ds(rng, shp, kinds, what, names, shift))
        if ndim and rng.random() < 0.08:
            variables[-1]['bins'] = []
    cmds = []
    shapes = [list(v['shape']) for v in variables]

    def bind(dst, shp):
        if dst == len(shapes):
            shapes.append(list(shp))
        else:
            shapes[dst] = list(shp)

    for _ in range(rng.randrange(1, 9)):
        r = rng.random()
        live = len(shapes)
        src = rng.randrange(live)
        dst = live if rng.random() < 0.7 else rng.randrange(live)
        if r < 0.62:
            kind = rng.random()
            if kind < 0.45:
                rhs = {'k': 'var', 'j': rng.randrange(live)}
            elif kind < 0.8:
                c = number(rng)
                is_int = False
                if abs(c) < 1e6 and rng.random() < 0.5:
                    c = float(int(c))
                    is_int = rng.random() < 0.6
                rhs = {'k': 'scalar', 'c': bits(c), 'int': is_int}
            else:
                shp = list(shapes[src])
                big = [ax for ax, n in enumerate(shp) if n >= 2]
                if big and rng.random() < 0.15:
                    shp[rng.choice(big)] += 2          # cannot be broadcast
                elif shp and all(v['bins'] for v in variables) and rng.random() < 0.15:
                    # can be broadcast, to a LARGER shape than the dataset's (whose bins would no longer fit)
                    ones = [ax for ax, n in enumerate(shp) if n == 1]
                    if ones and rng.random() < 0.6:
                        shp[rng.choice(ones)] = rng.choice([2, 3])
                        if rng.random() < 0.5:
                            while shp and shp[0] == 1:     # numpy aligns trailing axes: (n,) against (n, 1) gives (n, n)
                                shp.pop(0)
                            if len(shp) == 1 and len(shapes[src]) == 2 and shapes[src][1] == 1:
                                shp = [shapes[src][0]]
                    else:
                        shp = [2] + shp
                    if broadcast_of(shapes[src], shp) == list(shapes[src]):
                        shp = [2] + list(shapes[src])      # make sure the array really enlarges the dataset
                size = 1
                for n in shp:
                    size *= n
                rhs = {'k': 'array', 'shape': shp, 'a': [bits(number(rng)) for _ in range(size)]}
            dst = live     # an operation that raises leaves a fresh name unbound; bound names keep exactly-known shapes
            cmds.append({'k': 'arith', 'dst': dst, 'src': src, 'op': rng.choice(OPS), 'rhs': rhs})
            # the destination is bound only if the operation succeeds; the generator keeps its own view conservative:
            # a failed operation leaves `dst` unbound in both worlds, later commands on it are no-ops in both
            bind(dst, shapes[src])
        elif r < 0.85 or not all(v['bins'] or not v['shape'] for v in variables):
            cmds.append({'k': 'copy', 'dst': dst, 'src': src})
            bind(dst, shapes[src])
            # in-place writes into the fresh copy (its arrays must be its own)
            if shapes[src]:
                for _ in range(rng.randrange(0, 4)):
                    w = rng.choice(['value', 'error'] + list(range(len(shapes[src]))))
                    cmds.append({'k': 'poke', 'v': dst, 'w': w, 'i': rng.randrange(0, 5),
                                 'x': bits(number(rng, nonneg=(w == 'error')))})
        else:
            cmds.append({'k': 'squeeze', 'dst': dst, 'src': src})
            bind(dst, [n for n in shapes[src] if n != 1])
    case = {'vars': variables, 'cmds': cmds}
    if ndim and rng.random() < 0.15:
        # masked datasets (np.ma): no Lean counterpart; the oracle checks that operands (values, errors, bins AND masks) are
        # left untouched and that results are well formed
        size = len(variables[0]['value'])
        case['masks'] = [[rng.random() < 0.3 for _ in range(len(v['value']))] for v in variables]
        kept = [c for c in cmds if c['k'] in ('arith', 'copy')]
        # masks applied again along the chain, to already masked datasets and to results (fresh destinations)
        out, fresh = [], len(shapes) + 1
        for c in kept:
            out.append(c)
            if rng.random() < 0.5:
                out.append({'k': 'mask', 'dst': fresh, 'src': rng.choice([c['dst'], c['src'], rng.randrange(len(variables))]),
                            'm': [rng.random() < 0.35 for _ in range(12)]})
                fresh += 1
        if not out or rng.random() < 0.5:
            out.insert(0, {'k': 'mask', 'dst': fresh, 'src': rng.randrange(len(variables)),
                           'm': [rng.random() < 0.35 for _ in range(12)]})
        case['cmds'] = out
    if not pokes_legal(case):
        case['cmds'] = [c for c in cmds if c['k'] != 'poke']
    return case


def broadcast_of(a, b):
    """numpy's broadcast shape of two shapes (None when they cannot be broadcast)"""
    out = []
    for x, y in zip(([1] * len(b) + list(a))[-max(len(a), len(b)):], ([1] * len(a) + list(b))[-max(len(a), len(b)):]):
        if x != y and 1 not in (x, y):
            return None
        out.append(max(x, y))
    return out


def pokes_legal(case):
    """every in-place write goes into a variable that is certainly a fresh copy (a copy of a certainly bound variable)"""
    sure = set(range(len(case['vars'])))
    fresh = None
    for cmd in case['cmds']:
        if cmd['k'] == 'poke':
            if cmd['v'] != fresh:
                return False
            continue
        fresh = None
        if cmd['k'] == 'arith':
            sure.discard(cmd['dst'])
        elif cmd['src'] in sure:
            sure.add(cmd['dst'])
            if cmd['k'] == 'copy':
                fresh = cmd['dst']
        else:
            sure.discard(cmd['dst'])
    return True


def shrink(case):
    """drop one command; a copy goes together with the in-place writes into it (they are only legal on a fresh copy)"""
    cmds = case['cmds']
    i = 0
    while i < len(cmds):
        j = i + 1
        if cmds[i]['k'] != 'poke':
            while j < len(cmds) and cmds[j]['k'] == 'poke':
                j += 1
        cand = {'vars': case['vars'], 'cmds': cmds[:i] + cmds[j:]}
        if pokes_legal(cand):
            yield cand
        i += 1


# ---- implementation side ---------------------------------------------------------------------------------------------

def to_dataset(d):
    from collections import OrderedDict
    import numpy as np
    from valjean.eponine.dataset import Dataset
    if d['shape']:
        value = np.array([unbits(x) for x in d['value']], dtype=float).reshape(d['shape'])
        error = np.array([unbits(x) for x in d['error']], dtype=float).reshape(d['shape'])
    else:
        value = np.float64(unbits(d['value'][0]))
        error = np.float64(unbits(d['error'][0]))
    bins = OrderedDict((k, np.array([unbits(x) for x in v], dtype=float)) for k, v in d['bins'])
    return Dataset(value, error, bins=bins, name='n', what=d['what'])


def dump(ds):
    import numpy as np
    if ds is None:
        return None
    return {'shape': [int(n) for n in np.shape(ds.value)],
            'value': [bits(x) for x in np.asarray(ds.value, dtype=float).flatten()],
            'error': [bits(x) for x in np.asarray(ds.error, dtype=float).flatten()],
            'bins': [[k, [bits(x) for x in np.asarray(v, dtype=float).flatten()]] for k, v in ds.bins.items()],
            'what': ds.what}


def snapshot(ds):
    import numpy as np
    if ds is None:
        return None
    return (np.asarray(ds.value).tobytes(), np.asarray(ds.error).tobytes(), np.shape(ds.value),
            [(k, np.asarray(v).tobytes()) for k, v in ds.bins.items()], ds.what, ds.name,
            np.ma.getmaskarray(ds.value).tobytes(), np.ma.getmaskarray(ds.error).tobytes())


def classify(exc):
    msg = str(exc)
    if 'same bin names' in msg:
        return 'binNames'
    if 'the same bins' in msg:
        return 'binValues'
    if 'same shape' in msg or 'broadcast' in msg:
        return 'shape'
    if 'Number of dimensions of bins does not' in msg or 'Number of bins does not correspond to value shape' in msg:
        return 'shape'      # the constructor rejects a value that an array operand broadcast to another shape
    return f'ValueError: {msg}'[:120]


def apply_op(op, left, right):
    if op == '+':
        return left + right
    if op == '-':
        return left - right
    if op == '*':
        return left * right
    return left / right


def run_impl(case, run):
    import warnings
    import numpy as np
    from valjean.eponine.dataset import Dataset
    warnings.simplefilter('ignore')
    np.seterr(all='ignore')
    store = [to_dataset(d) for d in case['vars']]
    if case.get('masks'):
        store = [d.mask(np.array(m, dtype=bool).reshape(np.shape(d.value))) for d, m in zip(store, case['masks'])]
    errs, facts = [], []

    def put(i, d):
        while len(store) <= i:
            store.append(None)
        store[i] = d

    def get(i):
        return store[i] if i < len(store) else None

    for ci, cmd in enumerate(case['cmds']):
        before = [snapshot(d) for d in store]
        err = None
        fact = {'i': ci, 'k': cmd['k']}
        try:
            if cmd['k'] == 'arith':
                left = get(cmd['src'])
                if left is not None:
                    rhs = cmd['rhs']
                    if rhs['k'] == 'scalar':
                        c = unbits(rhs['c'])
                        right = int(c) if rhs.get('int') else c
                    elif rhs['k'] == 'array':
                        right = np.array([unbits(x) for x in rhs['a']], dtype=float).reshape(rhs['shape'])
                    else:
                        right = get(rhs['j'])
                    if right is not None:
                        res = apply_op(cmd['op'], left, right)
                        fact.update(check_result(cmd, left, right, res, before))
                        put(cmd['dst'], res)
            elif cmd['k'] == 'copy':
                src = get(cmd['src'])
                if src is not None:
                    res = src.copy()
                    shared = []
                    if isinstance(src.value, np.ndarray):
                        if np.shares_memory(res.value, src.value):
                            shared.append('value')
                        if np.shares_memory(res.error, src.error):
                            shared.append('error')
                    for key in src.bins:
                        if np.shares_memory(res.bins[key], src.bins[key]):
                            shared.append(f'bins[{key}]')
                    if res.bins is src.bins:
                        shared.append('bins dict')
                    fact['shared'] = shared
                    fact['equal'] = snapshot(res) == snapshot(src)
                    put(cmd['dst'], res)
            elif cmd['k'] == 'squeeze':
                src = get(cmd['src'])
                if src is not None:
                    put(cmd['dst'], src.squeeze())
            elif cmd['k'] == 'mask':
                src = get(cmd['src'])
                if src is not None:
                    size = int(np.size(src.value))
                    msk = np.array([cmd['m'][i % len(cmd['m'])] for i in range(size)], dtype=bool).reshape(np.shape(src.value))
                    res = src.mask(msk)
                    fact['mask_wf'] = (np.shape(res.value) == np.shape(src.value) == np.shape(res.error)
                                       and bool((np.ma.getmaskarray(res.error) == (np.ma.getmaskarray(src.error) | msk)).all())
                                       and bool((np.ma.getmaskarray(res.value) == (np.ma.getmaskarray(src.value) | msk)).all()))
                    put(cmd['dst'], res)
            elif cmd['k'] == 'poke':
                tgt = get(cmd['v'])
                if tgt is not None:
                    arr = tgt.value if cmd['w'] == 'value' else tgt.error if cmd['w'] == 'error' else None
                    if arr is None:
                        keys = list(tgt.bins)
                        arr = tgt.bins[keys[cmd['w']]] if cmd['w'] < len(keys) else None
                    if arr is not None and isinstance(arr, np.ndarray) and cmd['i'] < arr.size:
                        arr.reshape(-1)[cmd['i']] = unbits(cmd['x'])
                        if not arr.flags['C_CONTIGUOUS']:
                            fact['noncontig'] = True
        except ValueError as exc:
            err = classify(exc)
        except Exception as exc:  # pylint: disable=broad-except
            err = f'{type(exc).__name__}: {exc}'[:160]
        # nothing but the destination (and a poked variable) may have changed
        touched = {cmd.get('dst'), cmd.get('v')} if cmd['k'] != 'poke' else {cmd['v']}
        changed = [i for i, (b, d) in enumerate(zip(before, store)) if i not in touched and b != snapshot(d)]
        if changed:
            fact['modified'] = changed
        errs.append(err)
        facts.append(fact)
    return {'vars': [dump(d) for d in store], 'errs': errs, 'facts': facts}


def check_result(cmd, left, right, res, before):
    """the clauses of the property on one result, recomputed independently (float64, numpy)"""
    import numpy as np
    from valjean.eponine.dataset import Dataset
    out = {}
    lv, le = np.asarray(left.value, dtype=float), np.asarray(left.error, dtype=float)
    if isinstance(right, Dataset):
        rv, re_ = np.asarray(right.value, dtype=float), np.asarray(right.error, dtype=float)
    else:
        rv, re_ = np.asarray(right, dtype=float), None
    op = cmd['op']
    plain = {'+': lv + rv, '-': lv - rv, '*': lv * rv, '/': lv / rv}[op]
    val = np.asarray(res.value, dtype=float)
    err = np.asarray(res.error, dtype=float)
    # with bins the result keeps the shape the bins describe; without bins an array operand may broadcast it
    out['shape_ok'] = bool(val.shape == err.shape and (val.shape == lv.shape or not left.bins))
    out['value_ok'] = bool(val.shape == plain.shape and np.array_equal(val, plain, equal_nan=True))
    out['bins_ok'] = bool(list(res.bins) == list(left.bins)
                          and all(np.array_equal(res.bins[k], left.bins[k], equal_nan=True) for k in left.bins))
    inputs_nonneg = bool(not (le < 0).any() and (re_ is None or not (re_ < 0).any()))
    out['err_nonneg'] = bool(not inputs_nonneg or not (err < 0).any())
    # first-order uncorrelated error, in the formulation of the property (relative errors for * and /)
    with np.errstate(all='ignore'):
        if re_ is None:
            exp = le if op in '+-' else (le * np.abs(rv) if op == '*' else le / np.abs(rv))
            out['err_rule'] = bool(err.shape == np.shape(exp) and np.array_equal(err, exp, equal_nan=True))
        elif op in '+-':
            exp = np.sqrt(le * le + re_ * re_)
            out['err_rule'] = bool(np.allclose(err, exp, rtol=1e-12, atol=0, equal_nan=True))
        else:
            ok = (np.isfinite(lv) & np.isfinite(rv) & (lv != 0) & (rv != 0) & np.isfinite(le) & np.isfinite(re_)
                  & (np.abs(np.log10(np.abs(lv) + 1e-320)) < 60) & (np.abs(np.log10(np.abs(rv) + 1e-320)) < 60)
                  & (le < 1e60) & (re_ < 1e60) & ((le > 1e-60) | (le == 0)) & ((re_ > 1e-60) | (re_ == 0)))
            rel = np.abs(plain) * np.sqrt((le / lv) ** 2 + (re_ / rv) ** 2)
            # the code squares the absolute terms: outside 1e-150 .. 1e150 those squares leave the range of binary64
            # although the error itself is representable (overflow is in the trusted base, not in the property)
            ok = ok & np.isfinite(rel) & (rel < 1e150) & ((rel > 1e-150) | (rel == 0))
            good = np.isclose(err, rel, rtol=1e-9, atol=0) | ~ok
            out['err_rule'] = bool(good.all())
            out['rel_cells'] = int(ok.sum())
    return out


def run_model(case, driver, run):
    if case.get('masks'):
        return {'skipped': True}
    def for_model(cmd):
        cmd = {k: v for k, v in cmd.items() if k != 'int'}
        rhs = cmd.get('rhs')
        if isinstance(rhs, dict) and rhs.get('k') == 'array' and rhs.get('shape') == []:
            # a 0-d array is a number for numpy (it broadcasts to any shape): the model's number
            cmd['rhs'] = {'k': 'scalar', 'c': rhs['a'][0]}
        return cmd
    return driver.ask('dset', {'vars': case['vars'], 'cmds': [for_model(c) for c in case['cmds']], 'pinned': False})


def close(a, b, ulps=4):
    if a == b:
        return True
    if a == 'nan' or b == 'nan':
        return False
    x, y = unbits(a), unbits(b)
    if x == y:
        return True
    ia, ib = int(a), int(b)
    return (ia >> 63) == (ib >> 63) and abs(ia - ib) <= ulps


def compare(case, impl, model):
    from vcheck.runner import first_diff
    if model.get('skipped'):
        return None
    if impl['errs'] != model['errs']:
        return first_diff({'errs': impl['errs']}, {'errs': model['errs']})
    iv, mv = impl['vars'], model['vars']
    if len(iv) != len(mv):
        return f'number of variables {len(iv)} != {len(mv)}'
    for i, (a, b) in enumerate(zip(iv, mv)):
        if a is None or b is None:
            if a != b:
                return f'var {i}: {a} vs {b}'
            continue
        if a['shape']:
            diff = first_diff(a, b)
            if diff:
                return f'var {i}: {diff}'
        else:
            for key in ('shape', 'value', 'bins', 'what'):
                if a[key] != b[key]:
                    return f'var {i}.{key}: {a[key]} vs {b[key]}'
            if not all(close(x, y) for x, y in zip(a['error'], b['error'])):
                return f"var {i}.error (0-d): {a['error']} vs {b['error']}"
    return None


def oracle(case, impl, run):
    fails = []
    for cmd in case['cmds']:
        run.count('cmd:' + cmd['k'] + (':' + cmd['rhs']['k'] if cmd['k'] == 'arith' else ''))
    run.count(f"ndim={len(case['vars'][0]['shape'])}")
    for err in impl['errs']:
        if err:
            run.count('raised:' + err.split(':')[0])
            if err not in ('shape', 'binNames', 'binValues'):
                fails.append(('no_other_exception', err))
    if case.get('masks'):
        run.count('masked datasets')
    for fact in impl['facts']:
        i = fact['i']
        if fact.get('modified'):
            fails.append(('operands_unchanged', f"command #{i} ({case['cmds'][i]['k']}) changed variable(s) {fact['modified']}"))
        if fact['k'] == 'mask' and fact.get('mask_wf') is False:
            fails.append(('result_wf', f"command #{i}: masking gives value/error of different shapes, or masks that are not the union "
                                       'of the old and the new mask'))
        if fact['k'] == 'copy':
            if fact.get('shared'):
                fails.append(('copy_shares_nothing', f"command #{i}: the copy shares {fact['shared']} with its original"))
            if fact.get('equal') is False:
                fails.append(('copy_equal', f'command #{i}: the copy differs from its original'))
        if fact['k'] == 'arith' and 'shape_ok' in fact:
            cmd = case['cmds'][i]
            what = f"command #{i}: v{cmd['src']} {cmd['op']} {cmd['rhs']['k']}"
            if not fact['shape_ok']:
                fails.append(('result_wf', what + ': value and error of different shapes, or not the shape of the left operand (whose bins are kept)'))
            if not fact['value_ok'] and not case.get('masks'):
                fails.append(('value_plain_op', what + ': value is not the plain array operation'))
            if not fact['bins_ok']:
                fails.append(('bins_of_left_kept', what + ': bins of the left operand not kept'))
            if not fact['err_nonneg']:
                fails.append(('err_nonneg', what + ': negative error from non-negative errors'))
            if not fact['err_rule'] and not case.get('masks'):
                fails.append(('err_rule', what + ': error is not the first-order uncorrelated error'))
            if fact.get('rel_cells'):
                run.count('relative-error cells checked')
    return fails


def nontrivial(case, impl):
    for cmd, err in zip(case['cmds'], impl['errs']):
        if cmd['k'] == 'arith' and not err:
            if cmd['rhs']['k'] == 'var':
                return case
            if cmd['rhs']['k'] == 'scalar' and unbits(cmd['rhs']['c']) < 0:
                return case
        if cmd['k'] == 'poke':
            return case
    return None


def signature(case, clause, detail):
    return clause
