"""C10 — numbers read from Tripoli-4 and Apollo3 outputs are the numbers written there."""
import glob
import math
import os
import re
import shutil
import tempfile
from vcheck.fl import bits, unbits

PROPERTY = 'C10'
THEOREMS = ['T4Spec.error_eq_value_times_sigma', 'T4Spec.energy_bins_increasing', 'T4Spec.energy_score_attached',
            'T4Spec.orient_edges', 'T4Spec.orient_cells', 'T4Spec.decreasing_iff', 'T4Spec.convert_energy_axis', 'T4Spec.convert_single', 'T4Spec.fillRows_single',
            'T4Spec.all_axes_score_attached', 'T4Spec.axis_bins_increasing', 'T4Spec.time_edges_collected',
            'T4Spec.score_at_cursor', 'T4Spec.fill_cells', 'T4Spec.convert_ok',
            'T4Spec.grid_scores_attached', 'T4Spec.grid_fill_returns', 'T4Spec.grid_convert_returns', 'T4Spec.grid_read', 'T4Spec.muKeys_grid', 'T4Spec.phiKeys_grid', 'T4Spec.fillRows_succeeds', 'T4Spec.cursors_blocks', 'T4Spec.cursors_blocks_nodup', 'T4Spec.nbBins_blocks',
            'Ap3.picker_eq_reader', 'Ap3.reader_returns_stored', 'Ap3.picker_returns_stored', 'Ap3.build_spec', 'Ap3.concentration_agree']
BUDGET = {'quick': 700, 'thorough': 12000}
TIME_LIMIT = {'quick': 58, 'thorough': 1200}
RULE = ('five streams. (unit, 70%) token lists as the grammar hands them to the builders: 1-6 energy groups, optional time steps / '
        'mu zones / phi zones (1-3 each), every axis printed increasing or decreasing, scores of either sign, zeros, sigma in '
        '[0, 100], with / without energy-integrated results, sometimes non-contiguous groups -> common.convert_spectrum + '
        'data_convertor.convert_data vs the model, bit for bit. (listing, 16%) the shipped listings with every number of every '
        'spectrum line re-rendered (%e) from fresh ground truth, parsed end to end: the (group bounds, score, sigma) found in '
        'the datasets, grouped per scoring zone, must be exactly those printed. (editions, 5%) one Parser object asked for '
        '2-6 editions of a multi-edition listing by number and by index in any order: each answer is what a new Parser gives '
        'for that edition. (a3synth, 5%) small synthetic HDF5 files in the standard Apollo3 layout (1-2 outputs of 1-5 groups, '
        '1-3 zones, 0-3 isotopes): Reader and Picker return every stored array with its shape and group bins. (apollo3, 4%) the shipped HDF5 files with every '
        'float dataset replaced by x -> 2x+1: Reader.to_browser() vs Picker.pick_standard_value for every stored result, and '
        'against the transformed original; non-trivial = a decreasing axis, several axes, or an end-to-end case; distinct = case hash')
CORRESPONDS = ('Model/T4Spec.lean (nbBins, fill, addLast, decreasing/flip, convert, errorOf) vs valjean.eponine.tripoli4.common.'
               'convert_spectrum and data_convertor.convert_data on the same token lists (arrays, bins, errors bit-exact, same '
               'exception class)')
TRUSTED = ['harness/props/c10.py (token generator, number re-rendering of listings, HDF5 mutation)', 'vjdriver (compiled Model/T4Spec.lean)',
           'the pyparsing grammar / transform layer and h5py are exercised end to end against ground truth, not modelled; mesh, Green '
           'bands, IFP, sensitivities, keff and depletion builders have no Lean counterpart']
ASSUMPTIONS = ['the error is defined as value x sigma% (a negative score has a negative error)',
               'theorems are stated for the energy axis of one block (convert_energy_axis ties them to the executable model) and for the generic '
               'orientation step; the composition over the t / mu / phi axes is covered by the bit-exact correspondence',
               'Apollo3: the bins / shape / cell-order logic of Reader and Picker is modelled (Model/Ap3.lean) and compared with both classes on every array of the synthetic files; h5py and the walk over the file are exercised against ground truth, not modelled']

INTEG = re.compile(r'^(number of batches used: \d+\t)([-+0-9.eE]+)\t([-+0-9.eE]+)\s*$')
ROW = re.compile(r'^(\s*)([-+0-9.eE]+) - ([-+0-9.eE]+)(\s+)([-+0-9.eE]+)(\s+)([-+0-9.eE]+)(\s+)([-+0-9.eE]+)(\s*)$')


def repo():
    return os.environ.get('VERIF_REPO', '/repo')


def listings():
    root = repo()
    out = []
    for path in sorted(glob.glob(os.path.join(root, 'tests/eponine/tripoli4/data/*.res*'))):
        size = os.path.getsize(path)
        if size > 200000:
            continue
        with open(path, errors='ignore', encoding='utf-8') as fobj:
            text = fobj.read()
        if ('SPECTRUM RESULTS' in text and 'failure' not in path and 'missing' not in path
                and 'greenband' not in path and 'entropy' not in path):   # Green bands / mesh+spectrum: other builders
            out.append(os.path.relpath(path, root))
    return out


def hdf_files():
    root = repo()
    return [os.path.relpath(p, root) for p in sorted(glob.glob(os.path.join(root, 'tests/eponine/apollo3/data/*.hdf')))
            if os.path.getsize(p) < 150000]


_MULTI = []


def multi_edition_listings():
    """shipped listings (below 400 kB) holding at least two editions, with their batch numbers"""
    if not _MULTI:
        import logging
        logging.disable(logging.CRITICAL)
        from valjean.eponine.tripoli4.parse import Parser
        root = repo()
        try:
            for path in sorted(glob.glob(os.path.join(root, 'tests/eponine/tripoli4/data/*.res*'))
                               + glob.glob(os.path.join(root, 'doc/src/examples/notebooks/*/*.res*'))):
                if os.path.getsize(path) > 400000:
                    continue
                with open(path, 'rb') as fobj:
                    if fobj.read().count(b'RESULTS ARE GIVEN') < 2:
                        continue
                try:
                    numbers = [int(k) for k in Parser(path).scan_res.keys()]
                except Exception:  # pylint: disable=broad-except
                    continue
                if len(numbers) >= 2:
                    _MULTI.append((os.path.relpath(path, root), numbers))
        finally:
            logging.disable(logging.NOTSET)
    return _MULTI


def axis(rng, n, decreasing, energy=False):
    """the printed pairs of an axis: energy groups are printed 'first bound - second bound' in reading order (so 'hi - lo'
    when the grid is decreasing); time steps and angular zones are printed 'min' then 'max' whatever the order of the steps"""
    edges = sorted({round(rng.uniform(0, 20), 3) for _ in range(n + 6)})[:n + 1]
    while len(edges) < n + 1:
        edges.append(edges[-1] + 1.0)
    pairs = [(edges[i], edges[i + 1]) for i in range(n)]
    if decreasing:
        pairs = [((hi, lo) if energy else (lo, hi)) for lo, hi in reversed(pairs)]
    return pairs


def value(rng):
    r = rng.random()
    if r < 0.15:
        return 0.0
    x = float(f'{rng.uniform(1e-6, 50) * 10 ** rng.randrange(-6, 6):.6e}')
    return -x if rng.random() < 0.15 else x


def gen(rng, tier, run):
    r = rng.random()
    if r < 0.70:
        ne = rng.randrange(1, 7)
        nt = rng.choice([0, 0, 1, 2, 3])
        nmu = rng.choice([0, 0, 1, 2, 3])
        nphi = rng.choice([0, 0, 0, 1, 2]) if nmu else 0
        dec = [rng.random() < 0.5 for _ in range(4)]
        erows = axis(rng, ne, dec[0], energy=True)
        tax = axis(rng, nt, dec[1]) if nt else [None]
        max_ = axis(rng, nmu, dec[2]) if nmu else [None]
        pax = axis(rng, nphi, dec[3]) if nphi else [None]
        integ = rng.random() < 0.4 and not (nmu or nphi)
        blocks = []
        for it, tstep in enumerate(tax):
            for im, mstep in enumerate(max_):
                for ip, pstep in enumerate(pax):
                    blk = {'rows': [[bits(lo), bits(hi), bits(value(rng)), bits(round(rng.uniform(0, 100), 4)), bits(value(rng))]
                                    for lo, hi in erows]}
                    if tstep is not None and im == 0 and ip == 0:
                        blk['time'] = [it, bits(tstep[0]), bits(tstep[1])]
                    if mstep is not None and ip == 0:
                        blk['mu'] = [im, bits(mstep[0]), bits(mstep[1])]
                    if pstep is not None:
                        blk['phi'] = [ip, bits(pstep[0]), bits(pstep[1])]
                    if integ:
                        blk['integ'] = [bits(value(rng)), bits(round(rng.uniform(0, 100), 4))]
                    blocks.append(blk)
        if rng.random() < 0.05 and ne > 1:        # a gap between two groups: the '-a' diagnostic
            blocks[0]['rows'][1][0] = bits(unbits(blocks[0]['rows'][1][0]) + 0.5)
        if rng.random() < 0.04 and len(blocks) > 1:   # a sub-spectrum with one more group than the first
            blocks[-1]['rows'].append(list(blocks[-1]['rows'][-1]))
        return {'mode': 'unit', 'blocks': blocks}
    if r < 0.86:
        names = listings()
        return {'mode': 'listing', 'file': rng.choice(names), 'seed': rng.randrange(1 << 30)}
    if r < 0.91:
        # several editions asked from ONE Parser object, by number and by index, in any order
        name, numbers = rng.choice(multi_edition_listings())
        acc = []
        for _ in range(rng.randrange(2, 7)):
            if rng.random() < 0.5:
                acc.append(['number', rng.choice(numbers)])
            else:
                acc.append(['index', rng.choice(list(range(len(numbers))) + [-1])])
        return {'mode': 'editions', 'file': name, 'accesses': acc}
    if r < 0.97:
        return {'mode': 'a3synth', 'seed': rng.randrange(1 << 30)}
    return {'mode': 'apollo3', 'file': rng.choice(hdf_files()), 'seed': rng.randrange(1 << 30)}


def shrink(case):
    if case['mode'] != 'unit':
        return
    blocks = case['blocks']
    for blk in blocks:
        if len(blk['rows']) > 1 and len(blocks) == 1:
            new = dict(blk, rows=blk['rows'][:-1])
            yield {'mode': 'unit', 'blocks': [new]}


# ---- unit level ------------------------------------------------------------------------------------------------------

def tokens(case):
    data = []
    for blk in case['blocks']:
        item = {}
        if 'time' in blk:
            item['time_step'] = [blk['time'][0], unbits(blk['time'][1]), unbits(blk['time'][2])]
        if 'mu' in blk:
            item['mu_angle_zone'] = [blk['mu'][0], unbits(blk['mu'][1]), unbits(blk['mu'][2])]
        if 'phi' in blk:
            item['phi_angle_zone'] = [blk['phi'][0], unbits(blk['phi'][1]), unbits(blk['phi'][2])]
        item['spectrum_vals'] = [[unbits(x) for x in row] for row in blk['rows']]
        if 'integ' in blk:
            item['integrated_res'] = {'score': unbits(blk['integ'][0]), 'sigma': unbits(blk['integ'][1])}
        data.append(item)
    return data


def flat(arr):
    import numpy as np
    return [bits(x) for x in np.asarray(arr, dtype=float).flatten()]


def run_unit(case):
    import logging
    import numpy as np
    logging.disable(logging.CRITICAL)
    from valjean.eponine.tripoli4 import common, data_convertor
    out = {}
    try:
        res = common.convert_spectrum(tokens(case))
    except IndexError:
        return {'err': 'IndexError'}
    except common.SpectrumDictBuilderException:
        return {'err': 'SpectrumDictBuilderException'}
    arr = res['array']
    out['shape'] = [int(n) for n in arr.shape[3:]]
    for key in ('e', 't', 'mu', 'phi'):
        out[key] = [bits(x) for x in np.asarray(res['bins'][key], dtype=float)]
    out['score'] = flat(arr['score'])
    out['sigma'] = flat(arr['sigma'])
    out['leth'] = flat(arr['score/lethargy'])
    dset = data_convertor.convert_data({'spectrum': res}, 'spectrum')
    out['error'] = flat(dset.error)
    out['ds_value_is_score'] = flat(dset.value) == out['score']
    out['ds_bins'] = {k: [bits(x) for x in np.asarray(v, dtype=float)] for k, v in dset.bins.items()}
    if 'eintegrated_array' in res:
        integ = res['eintegrated_array']
        ids = data_convertor.convert_data({'spectrum': res}, 'spectrum', array_key='eintegrated_array')
        out['integ'] = [[a, b, c] for a, b, c in zip(flat(integ['score']), flat(integ['sigma']), flat(ids.error))]
    else:
        out['integ'] = None
    return out


# ---- end to end: shipped listings with re-rendered numbers --------------------------------------------------------------

def mutate_listing(text, seed):
    import random
    rng = random.Random(seed)
    serial = [0]

    def sub(match):
        serial[0] += 1
        score = float(f'{(serial[0] + rng.random()) * 10 ** rng.randrange(-3, 3):.6e}')
        if rng.random() < 0.1:
            score = -score
        sigma = float(f'{rng.uniform(0.01, 99):.6e}')
        g = match.groups()
        return f'{g[0]}{g[1]} - {g[2]}{g[3]}{score:.6e}{g[5]}{sigma:.6e}{g[7]}{g[8]}{g[9]}'
    def sub_integ(match):
        # the energy-integrated result of a spectrum: score and relative sigma (%); a sigma printed as 0 (every batch gave
        # the same value) and a score of 0 (nothing scored) are ordinary printed numbers
        serial[0] += 1
        score = float(f'{(serial[0] + rng.random()) * 10 ** rng.randrange(-3, 3):.6e}')
        r = rng.random()
        sigma = 0.0 if r < 0.25 else float(f'{rng.uniform(0.01, 99):.6e}')
        if r > 0.9:
            score = 0.0
        return f'{match.group(1)}{score:.6e}\t{sigma:.6e}'
    return '\n'.join(INTEG.sub(sub_integ, ROW.sub(sub, line)) for line in text.split('\n'))


_WORK = {}


def work_dir():
    if 'dir' not in _WORK:
        import atexit
        _WORK['dir'] = tempfile.mkdtemp(prefix='c10-')
        atexit.register(shutil.rmtree, _WORK['dir'], True)
    return _WORK['dir']


def multi_count(text):
    return [i for i in range(len(text)) if text.startswith('RESULTS ARE GIVEN', i)]


def groups_of_text(block_text):
    """(lo, hi, score, sigma) of every spectrum line, grouped per scoring zone"""
    groups, cur = [], None
    for line in block_text.split('\n'):
        if 'scoring zone' in line or 'RESPONSE FUNCTION' in line:
            cur = None
        match = ROW.match(line)
        if match:
            if cur is None:
                cur = []
                groups.append(cur)
            g = match.groups()
            cur.append((float(g[1]), float(g[2]), float(g[4]), float(g[6])))
    return [sorted((min(a, b), max(a, b), s, sg) for a, b, s, sg in grp) for grp in groups if grp]


def run_listing(case):
    import logging
    import numpy as np
    logging.disable(logging.CRITICAL)
    from valjean.eponine.tripoli4.parse import Parser
    out = {}
    try:
        with open(os.path.join(repo(), case['file']), errors='ignore', encoding='utf-8') as fobj:
            text = fobj.read()
        new = mutate_listing(text, case['seed'])
        # always the same path (a job overwrites its listing): what is read is what the file holds now
        path = os.path.join(work_dir(), 'mutated.res')
        with open(path, 'w', encoding='utf-8') as fobj:
            fobj.write(new)
        parser = Parser(path)
        number = parser.scan_res.batch_number(-1)
        pres = parser.parse_from_number(number)
        printed = groups_of_text(new[new.rfind('RESULTS ARE GIVEN'):] if 'RESULTS ARE GIVEN' in new else new)
        printed_scan = groups_of_text(parser.scan_res[number])
        if printed_scan != printed and len(multi_count(new)) <= 1:
            out['scan_differs'] = True
        printed = printed_scan if len(multi_count(new)) > 1 else printed
        browser = pres.to_browser()
        found = []
        bad_error = []
        for item in browser.content:
            res = item.get('results')
            dset = res.get('score') if isinstance(res, dict) else None
            if dset is None or not hasattr(dset, 'bins') or 'e' not in dset.bins or np.ndim(dset.value) != 7:
                continue
            if not str(item.get('score_name', '')) and 'energy_split_name' not in item:
                continue
            ebins = np.asarray(dset.bins['e'], dtype=float)
            if ebins.size != dset.value.shape[3] + 1 or dset.value.shape[:3] != (1, 1, 1):
                continue
            if not (np.diff(ebins) > 0).all():
                out.setdefault('not_increasing', []).append([int(item.get('index', -1)), ebins.tolist()])
            cells = []
            val = np.asarray(dset.value)
            err = np.asarray(dset.error)
            for idx in np.ndindex(*val.shape):
                if np.isnan(val[idx]):
                    continue
                ie = idx[3]
                sig = None if val[idx] == 0 else err[idx] / val[idx] * 100.0
                cells.append((float(ebins[ie]), float(ebins[ie + 1]), float(val[idx]), sig))
                if 'energy_split_name' in item and not math.isfinite(err[idx]):
                    bad_error.append(idx)
            found.append(sorted(cells, key=lambda c: (c[0], c[1], c[2])))
        out['printed'] = printed
        out['found'] = found
        # energy-integrated results: what the edition prints, what the datasets hold
        last = parser.scan_res[number]
        out['printed_integ'] = [[float(m.group(2)), float(m.group(3))] for m in
                                (INTEG.match(line) for line in last.split('\n')) if m]
        integ = []
        for item in browser.content:
            res = item.get('results')
            for key, dset in (res.items() if isinstance(res, dict) else []):
                if 'integrated' in key and hasattr(dset, 'value') and np.size(dset.value) == 1:
                    integ.append([key, float(np.asarray(dset.value).ravel()[0]), float(np.asarray(dset.error).ravel()[0])])
        out['found_integ'] = integ
        out['outcome'] = 'ok'
    except Exception as exc:  # pylint: disable=broad-except
        out['outcome'] = f'{type(exc).__name__}: {exc}'[:200]
    finally:
        logging.disable(logging.NOTSET)
    return out


# ---- Apollo3 ------------------------------------------------------------------------------------------------------------

def run_apollo3(case):
    import logging
    import h5py
    import numpy as np
    logging.disable(logging.CRITICAL)
    from valjean.eponine.apollo3.hdf5_reader import Reader
    from valjean.eponine.apollo3.hdf5_picker import Picker
    out = {'reader_vs_picker': [], 'metamorphic': [], 'n': 0, 'picked': 0}
    try:
        src = os.path.join(repo(), case['file'])
        with tempfile.TemporaryDirectory() as tmp:
            path = os.path.join(tmp, 'mutated.hdf')
            shutil.copy(src, path)
            with h5py.File(path, 'r+') as hfile:
                def visit(name, obj):
                    if isinstance(obj, h5py.Dataset) and obj.dtype.kind == 'f' and not name.startswith(('geometry', 'info')):
                        obj[...] = obj[...] * 2.0 + 1.0
                hfile.visititems(visit)
            def ident(it):
                return tuple(sorted((k, str(v)) for k, v in it.items() if k != 'results'))
            orig = {ident(it): it['results'] for it in Reader(src).to_browser().content}

            def reader_vs_picker(hpath, reference):
                items = list(Reader(hpath).to_browser().content)
                picker = Picker(hpath)
                for it in items:
                    out['n'] += 1
                    key = ident(it)
                    dset = it['results']
                    old = reference.get(key) if reference is not None else None
                    if reference is None or not all(k in it for k in ('output', 'zone', 'result_name')) or 'LOCAL' in str(it.get('result_name')).upper():
                        pass          # user / kinetics values: derived quantities, no metamorphic ground truth
                    elif old is None:
                        out['metamorphic'].append([list(map(str, key)), 'absent from the original'])
                    elif np.asarray(old.value).dtype.kind == 'f':
                        exp = np.asarray(old.value) * 2.0 + 1.0
                        same = (np.array_equal(np.asarray(dset.value), exp, equal_nan=True)
                                or np.array_equal(np.asarray(dset.value), np.asarray(old.value), equal_nan=True))
                        if not same:
                            out['metamorphic'].append([list(map(str, key)), 'value is neither the stored array nor its image'])
                    if not all(k in it for k in ('output', 'zone', 'result_name')):
                        continue
                    try:
                        kwargs = {'output': it['output'], 'zone': it['zone'], 'result_name': it['result_name']}
                        if it.get('isotope') is not None:
                            kwargs['isotope'] = it['isotope']
                        picked = picker.pick_standard_value(**kwargs)
                    except Exception:  # pylint: disable=broad-except
                        continue          # the Reader lower-cases result names: not every item can be asked from the Picker
                    if picked is None:
                        continue
                    out['picked'] += 1
                    same = (np.shape(picked.value) == np.shape(dset.value)
                            and np.array_equal(np.asarray(picked.value), np.asarray(dset.value), equal_nan=True)
                            and list(picked.bins) == list(dset.bins)
                            and all(np.array_equal(np.asarray(picked.bins[k]), np.asarray(dset.bins[k])) for k in dset.bins))
                    if not same:
                        out['reader_vs_picker'].append(list(map(str, key)))
                picker.close()
            reader_vs_picker(path, orig)
            # a second file with the same outputs and zones but the isotopes stored in another order, read by the same process
            path2 = os.path.join(tmp, 'reordered.hdf')
            shutil.copy(path, path2)
            changed = [0]
            with h5py.File(path2, 'r+') as hfile:
                def reorder(name, obj):
                    if (isinstance(obj, h5py.Group) and isinstance(obj.get('ISOTOPE'), h5py.Dataset) and isinstance(obj.get('CONCEN'), h5py.Dataset)
                            and obj['ISOTOPE'].shape[0] > 1 and obj['ISOTOPE'].shape == obj['CONCEN'].shape):
                        names = obj['ISOTOPE'][...][::-1].copy()
                        conc = obj['CONCEN'][...][::-1].copy()
                        del obj['ISOTOPE']
                        del obj['CONCEN']
                        obj.create_dataset('ISOTOPE', data=names)
                        obj.create_dataset('CONCEN', data=conc)
                        changed[0] += 1
                groups = []
                hfile.visititems(lambda name, obj: groups.append(name) if isinstance(obj, h5py.Group) else None)
                for name in groups:
                    reorder(name, hfile[name])
            if changed[0]:
                out['reordered_zones'] = changed[0]
                reader_vs_picker(path2, None)
        out['outcome'] = 'ok'
    except Exception as exc:  # pylint: disable=broad-except
        out['outcome'] = f'{type(exc).__name__}: {exc}'[:200]
    finally:
        logging.disable(logging.NOTSET)
    return out


_REF = {}


def run_editions(case):
    """one Parser object asked for several editions in a row: each answer is the one a fresh Parser gives for that edition"""
    import logging
    logging.disable(logging.CRITICAL)
    from valjean.eponine.tripoli4.parse import Parser
    from props.c11 import canon
    out = {'wrong': [], 'n': 0}
    try:
        path = os.path.join(repo(), case['file'])
        numbers = dict(multi_edition_listings())[case['file']]

        def reference(number):
            key = (case['file'], number)
            if key not in _REF:
                pres = Parser(path).parse_from_number(number)
                _REF[key] = (canon(pres.pres), canon(pres.res.get('list_responses')), pres.res.get('edition_batch_number'))
            return _REF[key]
        parser = Parser(path)
        for how, arg in case['accesses']:
            number = arg if how == 'number' else numbers[arg]
            pres = parser.parse_from_number(arg) if how == 'number' else parser.parse_from_index(arg)
            got = (canon(pres.pres), canon(pres.res.get('list_responses')), pres.res.get('edition_batch_number'))
            ref = reference(number)
            out['n'] += 1
            if ref[2] is not None and ref[2] != number:
                out['wrong'].append(f'a fresh Parser asked for edition {number} returns edition {ref[2]}')
            if got != ref:
                out['wrong'].append(f'parse_from_{how}({arg}) after {case["accesses"][:out["n"] - 1]} on the same Parser: not the '
                                    f'result of edition {number} (edition_batch_number {got[2]})')
        out['outcome'] = 'ok'
    except Exception as exc:  # pylint: disable=broad-except
        out['outcome'] = f'{type(exc).__name__}: {exc}'[:200]
    finally:
        logging.disable(logging.NOTSET)
    return out


def build_a3(path, rng):
    """a small file in the standard Apollo3 rates layout (docstring of hdf5_reader); returns what was stored"""
    import h5py
    import numpy as np
    truth = {}
    local = {}
    descr = {}
    build_a3.local = local
    build_a3.descr = descr
    hfile_ng = {}
    with h5py.File(path, 'w') as hfile:
        nout = rng.choice([1, 2])
        info = hfile.create_group('info')
        info['NOUT'] = np.array([nout], dtype='i4')
        geom = hfile.create_group('geometry')
        geom['NGEO'] = np.array([1], dtype='i4')
        geo = geom.create_group('geometry_0')
        zones = rng.sample(['fuel', 'mod', 'clad', 'gap', 'refl'], rng.randrange(1, 4))
        geo['NZONE'] = np.array([len(zones)], dtype='i4')
        geo['VOLUME'] = np.array([rng.uniform(0.5, 3) for _ in zones], dtype='f4')
        width = max(len(z) for z in zones)
        geo['ZONENAME'] = np.array([z.encode().ljust(width) for z in zones], dtype=f'S{width}')
        for iout in range(nout):
            ngr = rng.choice([1, 1, 2, 3, 5])
            oname = f'output_{iout}'
            oinfo = info.create_group(oname)
            oinfo['GEOMID'] = np.array([b'geometry_0'], dtype='S10')
            oinfo['NG'] = np.array([ngr], dtype='i4')
            hfile_ng[oname] = ngr
            out = hfile.create_group(oname)
            tot = out.create_group('totaloutput')
            tot['KEFF'] = np.array([rng.uniform(0.8, 1.2)], dtype='f8')
            truth[(oname, 'totaloutput', None, 'KEFF')] = tot['KEFF'][...][0]
            if rng.random() < 0.7:
                arr = np.array([rng.uniform(1, 9) for _ in range(ngr)], dtype='f8')
                tot['FLUX'] = arr
                truth[(oname, 'totaloutput', None, 'FLUX')] = arr
            if rng.random() < 0.25:
                # surface quantities of the whole output: (groups, surfaces) and (groups, surfaces, 2 directions)
                nsurf = rng.choice([2, 3, 4])      # (a single surface makes size == groups: both classes then refuse the 2-d array)
                tot['NSURF'] = np.array([nsurf], dtype='i4')
                arr = np.array([[rng.uniform(1, 9) for _ in range(nsurf)] for _ in range(ngr)], dtype='f8')
                tot['SURFFLUX'] = arr
                truth[(oname, 'totaloutput', None, 'SURFFLUX')] = arr
                if rng.random() < 0.5:
                    arr = np.array([[[rng.uniform(1, 9), rng.uniform(1, 9)] for _ in range(nsurf)] for _ in range(ngr)], dtype='f8')
                    tot['CURRENT'] = arr
                    truth[(oname, 'totaloutput', None, 'CURRENT')] = arr
                for nm in ('SURFFLUX', 'CURRENT'):
                    if (oname, 'totaloutput', None, nm) in truth:
                        descr[(oname, 'totaloutput', None, nm)] = {'nsurf': nsurf}
            if rng.random() < 0.5:
                # user ("local") values of the output: names padded with blanks, the same name may be stored more than once
                lnames = rng.sample(['keff_user', 'power', 'Bu', 'leak'], rng.randrange(1, 4))
                if rng.random() < 0.4:
                    lnames.append(rng.choice(lnames))
                lvals = np.array([rng.uniform(0, 50) for _ in lnames], dtype='f8')
                lwidth = max(len(n) for n in lnames) + rng.choice([0, 3])
                tot['LOCALNAME'] = np.array([n.encode().ljust(lwidth) for n in lnames], dtype=f'S{lwidth}')
                tot['LOCALVALUE'] = lvals
                local[oname] = sorted((n, float(v)) for n, v in zip(lnames, lvals))
            for zone in zones:
                zgrp = out.create_group(zone)
                isos = rng.sample(['U235', 'U238', 'O16', 'H1'], rng.randrange(0, 4))
                zgrp['NISOT'] = np.array([len(isos)], dtype='i4')
                if isos:
                    zgrp['ISOTOPE'] = np.array([i.encode().ljust(8) for i in isos], dtype='S8')
                    conc = np.array([rng.uniform(0, 1) for _ in isos], dtype='f8')
                    zgrp['CONCEN'] = conc
                    for iso, val in zip(isos, conc):
                        truth[(oname, zone, iso, 'concentration')] = val
                arr = np.array([rng.uniform(1, 9) for _ in range(ngr)], dtype=rng.choice(['f4', 'f8']))
                zgrp['FLUX'] = arr
                truth[(oname, zone, None, 'FLUX')] = arr
                for iso in isos + ['macro']:
                    igrp = zgrp.create_group(iso)
                    for reac in rng.sample(['Absorption', 'Fission', 'NuFission', 'Total'], rng.randrange(1, 4)):
                        arr = np.array([rng.uniform(0, 2) for _ in range(ngr)], dtype='f8')
                        igrp[reac] = arr
                        truth[(oname, zone, iso, reac)] = arr
                    if rng.random() < 0.35:
                        # rates with several anisotropies: the number is given for the isotope (info/nbAnisotropy) or, under
                        # `macro`, per rate (info/<rate>/nbAnisotropy)
                        nani = rng.choice([1, 2, 3])
                        info_g = igrp.create_group('info')
                        per_rate = iso == 'macro' and rng.random() < 0.5
                        if per_rate:
                            info_g.create_group('Diffusion')['nbAnisotropy'] = np.array([nani], dtype='i4')
                        else:
                            info_g['nbAnisotropy'] = np.array([nani], dtype='i4')
                        arr = np.array([rng.uniform(0, 2) for _ in range(ngr * nani)], dtype='f8')
                        igrp['Diffusion'] = arr
                        truth[(oname, zone, iso, 'Diffusion')] = arr
                        for reac in [k[3] for k in truth if k[:3] == (oname, zone, iso)]:
                            descr[(oname, zone, iso, reac)] = {
                                'info': True, 'res_aniso': nani if per_rate and reac == 'Diffusion' else None,
                                'def_aniso': None if per_rate else nani}
    for key, arr in truth.items():
        dsc = descr.setdefault(key, {})
        dsc.update({'name': key[3], 'level': 'total' if key[1] == 'totaloutput' else ('zone' if key[2] is None else 'iso'),
                    'shape': list(np.shape(arr)) or [1], 'ngroups': int(hfile_ng[key[0]])})
        for opt in ('res_aniso', 'def_aniso', 'nsurf'):
            dsc.setdefault(opt, None)
        dsc.setdefault('info', False)
    return truth


def a3_expected(stored, dsc):
    """ground truth: shape and bins a stored array must be given (documented layout)"""
    import numpy as np
    if np.ndim(stored) == 0:
        return [], []
    ngr, size = dsc['ngroups'], int(np.size(stored))
    if size == ngr and np.ndim(stored) == 1:
        return [ngr], [['groups', ngr]]
    if dsc['name'] == 'SURFFLUX':
        return list(np.shape(stored)), [['groups', ngr], ['surfaces', dsc['nsurf']]]
    if dsc['name'] == 'CURRENT':
        return list(np.shape(stored)), [['groups', ngr], ['surfaces', dsc['nsurf']], ['direction', 2]]
    nani = size // ngr
    return [nani, ngr], [['anisotropies', nani], ['groups', ngr]]


def a3_observe(dset, stored):
    """what a class made of a stored array: shape, bins (name, length), and where each returned cell stood in the stored array"""
    import numpy as np
    flat = [float(x) for x in np.asarray(stored, dtype=float).ravel()]
    cells = [float(x) for x in np.asarray(dset.value, dtype=float).ravel()]
    return {'shape': list(np.shape(dset.value)), 'bins': [[k, len(v)] for k, v in dset.bins.items()],
            'value': [flat.index(c) if c in flat else -1 for c in cells]}


def run_a3synth(case):
    import logging
    import random
    import numpy as np
    logging.disable(logging.CRITICAL)
    from valjean.eponine.apollo3.hdf5_reader import Reader
    from valjean.eponine.apollo3.hdf5_picker import Picker
    out = {'reader_bad': [], 'picker_bad': [], 'n': 0}
    try:
        with tempfile.TemporaryDirectory() as tmp:
            path = os.path.join(tmp, 'synthetic.hdf')
            truth = build_a3(path, random.Random(case['seed']))

            descr = build_a3.descr
            out['obs'] = {}

            def same(dset, stored, key=None, who=None):
                if key is not None and np.ndim(stored) != 0:
                    out['obs'].setdefault('|'.join(map(str, key)), {})[who] = a3_observe(dset, stored)
                if np.ndim(stored) == 0:
                    return np.shape(dset.value) == () and float(dset.value) == float(stored) and not dset.bins
                shape, bins = a3_expected(stored, descr[key])
                return (list(np.shape(dset.value)) == shape
                        and np.array_equal(np.asarray(dset.value).ravel(), np.asarray(stored).ravel())
                        and [[k, len(v)] for k, v in dset.bins.items()] == bins
                        and all(np.array_equal(np.asarray(v), np.arange(len(v))) for k, v in dset.bins.items() if k != 'direction'))
            seen = set()
            local = build_a3.local
            got_local = {}
            for item in Reader(path).to_browser().content:
                key = (item.get('output'), item.get('zone'), item.get('isotope'), str(item.get('result_name')).lower())
                if key[1] == 'totaloutput' and any(key[3] == n.lower() for n, _ in local.get(key[0], [])):
                    got_local.setdefault(key[0], []).append((str(item.get('result_name')),
                                                             float(np.asarray(item['results'].value).ravel()[0])))
                    continue
                match = [k for k in truth if (k[0], k[1], k[2], k[3].lower()) == key]
                if not match:
                    out['reader_bad'].append(f'{key}: not stored in the file')
                    continue
                seen.add(match[0])
                out['n'] += 1
                if not same(item['results'], truth[match[0]], match[0], 'reader'):
                    out['reader_bad'].append(f"{key}: Reader gives shape {np.shape(item['results'].value)} bins "
                                             f"{list(item['results'].bins)} for the stored array of shape {np.shape(truth[match[0]])}")
            for key in truth:
                if key not in seen:
                    out['reader_bad'].append(f'{key}: stored but absent from the Reader browser')
            for oname, stored in local.items():
                out['n'] += len(stored)
                if sorted(got_local.get(oname, [])) != stored:
                    out['reader_bad'].append(f'{oname}: local values stored {stored}, Reader gives {sorted(got_local.get(oname, []))}')
            picker = Picker(path)
            for (oname, zone, iso, name), stored in truth.items():
                kwargs = {'output': oname, 'zone': zone, 'result_name': name}
                if iso is not None:
                    kwargs['isotope'] = iso
                picked = picker.pick_standard_value(**kwargs)
                if not same(picked, stored, (oname, zone, iso, name), 'picker'):
                    out['picker_bad'].append(f'{(oname, zone, iso, name)}: Picker gives shape {np.shape(picked.value)} bins '
                                             f'{list(picked.bins)} for the stored array of shape {np.shape(stored)}')
            picker.close()
        out['outcome'] = 'ok'
    except Exception as exc:  # pylint: disable=broad-except
        out['outcome'] = f'{type(exc).__name__}: {exc}'[:200]
    finally:
        logging.disable(logging.NOTSET)
    return out


def run_impl(case, run):
    import warnings
    warnings.simplefilter('ignore')
    if case['mode'] == 'unit':
        return run_unit(case)
    if case['mode'] == 'listing':
        return run_listing(case)
    if case['mode'] == 'editions':
        return run_editions(case)
    if case['mode'] == 'a3synth':
        return run_a3synth(case)
    return run_apollo3(case)


def run_model(case, driver, run):
    if case['mode'] == 'a3synth':
        # the model is asked about every stored array of the synthetic file (the file is rebuilt from the seed: same content)
        import random
        import numpy as np
        with tempfile.TemporaryDirectory() as tmp:
            truth = build_a3(os.path.join(tmp, 'synthetic.hdf'), random.Random(case['seed']))
            descr = dict(build_a3.descr)
        obs = {}
        for key, stored in truth.items():
            if np.ndim(stored) == 0:
                continue
            ans = driver.ask('ap3', descr[key])
            obs['|'.join(map(str, key))] = {'reader': ans['reader'], 'picker': ans['picker']}
        return {'a3': obs}
    if case['mode'] != 'unit':
        return {'skipped': True}
    blocks = []
    for blk in case['blocks']:
        blocks.append({'time': blk.get('time'), 'mu': blk.get('mu'), 'phi': blk.get('phi'), 'rows': blk['rows'], 'integ': blk.get('integ')})
    return driver.ask('t4spec', {'blocks': blocks})


def compare(case, impl, model):
    from vcheck.runner import first_diff
    if model.get('skipped'):
        return None
    if 'a3' in model:
        if impl.get('outcome') != 'ok':
            return None          # the oracle reports it
        return first_diff(impl.get('obs'), model['a3'])
    if 'err' in impl or 'err' in model:
        return None if impl.get('err') == model.get('err') else f"impl={impl.get('err', 'result')} model={model.get('err', 'result')}"
    keys = ('shape', 'e', 't', 'mu', 'phi', 'score', 'sigma', 'leth', 'error', 'integ')
    return first_diff({k: impl[k] for k in keys}, {k: model[k] for k in keys})


def oracle(case, impl, run):
    run.count('mode=' + case['mode'])
    fails = []
    if case['mode'] == 'unit':
        if 'err' in impl:
            run.count('unit:' + impl['err'])
            return fails
        # ground truth: every printed row is found under its own bounds, bins strictly increasing
        for key in ('e', 't', 'mu', 'phi'):
            vals = [unbits(x) for x in impl[key]]
            if any(b <= a for a, b in zip(vals, vals[1:])):
                fails.append(('bins_increasing', f'axis {key}: {vals}'))
        ne, nt, nmu, nphi = impl['shape']
        ebins = [unbits(x) for x in impl['e']]
        axes = {'t': [unbits(x) for x in impl['t']], 'mu': [unbits(x) for x in impl['mu']], 'phi': [unbits(x) for x in impl['phi']]}
        cur = {'t': None, 'mu': None, 'phi': None}
        for blk in case['blocks']:
            for name in ('time', 'mu', 'phi'):
                if name in blk:
                    cur['t' if name == 'time' else name] = (unbits(blk[name][1]), unbits(blk[name][2]))
            pos = []
            ok = True
            for name, n in (('t', nt), ('mu', nmu), ('phi', nphi)):
                if cur[name] is None:
                    pos.append(0)
                    continue
                lo, hi = min(cur[name]), max(cur[name])
                cand = [i for i in range(n) if axes[name][i] == lo and axes[name][i + 1] == hi]
                if len(cand) != 1:
                    fails.append(('score_attached', f'{name} step {cur[name]} is not a cell of the bins {axes[name]}'))
                    ok = False
                    break
                pos.append(cand[0])
            if not ok:
                break
            if 'integ' in blk and impl.get('integ') is not None:
                # the energy-integrated result printed with this block sits at the same time / mu / phi position
                idx = (pos[0] * nmu + pos[1]) * nphi + pos[2]
                if idx >= len(impl['integ']) or impl['integ'][idx][0] != blk['integ'][0] or impl['integ'][idx][1] != blk['integ'][1]:
                    got = impl['integ'][idx][:2] if idx < len(impl['integ']) else None
                    fails.append(('score_attached', f'energy-integrated result at t/mu/phi {pos}: '
                                  f'{got and [unbits(x) for x in got]}, printed {[unbits(x) for x in blk["integ"]]}'))
                    break
            for row in blk['rows']:
                lo, hi = sorted((unbits(row[0]), unbits(row[1])))
                cand = [i for i in range(ne) if ebins[i] == lo and ebins[i + 1] == hi]
                if len(cand) != 1:
                    fails.append(('score_attached', f'group {lo} - {hi} is not a cell of the energy bins {ebins}'))
                    break
                flat_idx = ((cand[0] * nt + pos[0]) * nmu + pos[1]) * nphi + pos[2]
                if impl['score'][flat_idx] != row[2] or impl['sigma'][flat_idx] != row[3]:
                    fails.append(('score_attached', f'group {lo} - {hi} at t/mu/phi {pos}: score {unbits(impl["score"][flat_idx])}, printed {unbits(row[2])}'))
                    break
                exp = unbits(row[2]) * unbits(row[3]) * 0.01
                got = unbits(impl['error'][flat_idx])
                if not (got == exp or abs(got - exp) <= 4e-16 * abs(exp)):
                    fails.append(('error_eq_value_times_sigma', f'error {got}, value x sigma% = {exp}'))
                    break
        if not impl['ds_value_is_score']:
            fails.append(('score_attached', 'the dataset value is not the score array'))
        if any(x for blk in case['blocks'] for x in (blk.get('time'), blk.get('mu'), blk.get('phi')) if x):
            run.count('unit:several axes')
        return fails[:6]
    if impl['outcome'] != 'ok':
        fails.append(('end_to_end_no_exception', f"{case.get('file', case['mode'])}: {impl['outcome']}"))
        return fails
    if case['mode'] == 'listing':
        run.count('listing groups=' + str(min(len(impl['printed']), 9)))
        for bad in impl.get('not_increasing', []):
            fails.append(('bins_increasing', f"{case['file']}: energy bins {bad[1]}"))
        printed = impl['printed']
        found = impl['found']

        def close(a, b):
            return a == b or (a is not None and b is not None and abs(a - b) <= 1e-9 * max(abs(a), abs(b)))
        unmatched = list(found)
        for grp in printed:
            hit = None
            for cand in unmatched:
                if len(cand) == len(grp) and all(c[0] == g[0] and c[1] == g[1] and c[2] == g[2] and (c[3] is None or close(c[3], g[3]))
                                                 for c, g in zip(cand, sorted(grp, key=lambda c: (c[0], c[1], c[2])))):
                    hit = cand
                    break
            if hit is None:
                fails.append(('score_attached', f"{case['file']}: the {len(grp)} spectrum lines of a scoring zone (first: {grp[0]}) are not "
                              f'the content of any dataset'))
                break
            unmatched.remove(hit)
        # every energy-integrated dataset holds a printed score with value x printed sigma % as error (scores are made
        # distinct by the rewriting of the listing; a dataset whose value is not a rewritten score is left alone)
        for key, val, err in impl.get('found_integ', []):
            cands = [sg for sc, sg in impl.get('printed_integ', []) if sc == val]
            if not cands:
                run.count('integ:not-rewritten')
                continue
            run.count('integ:checked')
            if not any(err == val * sg * 0.01 or abs(err - val * sg * 0.01) <= 1e-12 * abs(val * sg * 0.01) for sg in cands):
                fails.append(('error_eq_value_times_sigma', f"{case['file']}: {key} = {val} printed with sigma {cands} %: "
                              f'error {err}, expected {[val * sg * 0.01 for sg in cands]}'))
                break
        return fails
    if case['mode'] == 'editions':
        if impl.get('outcome') != 'ok':
            fails.append(('no_exception', f"{case['file']}: {impl.get('outcome')}"))
        for why in impl.get('wrong', [])[:3]:
            fails.append(('requested_edition', f"{case['file']}: {why}"))
        return fails
    if case['mode'] == 'a3synth':
        if impl.get('outcome') != 'ok':
            fails.append(('no_exception', f"synthetic Apollo3 file (seed {case['seed']}): {impl.get('outcome')}"))
        for why in impl.get('reader_bad', [])[:3]:
            fails.append(('stored_array_returned', f"synthetic Apollo3 file (seed {case['seed']}): {why}"))
        for why in impl.get('picker_bad', [])[:3]:
            fails.append(('picker_eq_reader', f"synthetic Apollo3 file (seed {case['seed']}): {why}"))
        return fails
    run.count(f"apollo3 picked={min(impl['picked'], 1) and 'some'}")
    for key in impl['reader_vs_picker'][:3]:
        fails.append(('picker_eq_reader', f"{case['file']}: {key}: Picker and Reader disagree"))
    for key, why in impl['metamorphic'][:3]:
        fails.append(('stored_array_returned', f"{case['file']}: {key}: {why}"))
    return fails


def nontrivial(case, impl):
    if case['mode'] != 'unit':
        return case if impl.get('outcome') == 'ok' else None
    if 'err' in impl:
        return None
    vals = [unbits(x) for x in case['blocks'][0]['rows'][0][:2]]
    if vals[0] > vals[1] or len(case['blocks']) > 1:
        return case
    return None


def signature(case, clause, detail):
    return clause
