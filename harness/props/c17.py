"""C17 — browser selections return exactly the items that match (valjean/eponine/browser.py)."""
import copy

PROPERTY = 'C17'
THEOREMS = ['Browser.index_spec', 'Browser.filterIds_spec', 'Browser.pick_eq_scan', 'Browser.filter_eq_scan',
            'Browser.filter_keeps_globals_datakey', 'Browser.select_single_or_error', 'Browser.merge_concat',
            'Browser.chain_eq_scan']
BUDGET = {'quick': 1500, 'thorough': 40000}
TIME_LIMIT = {'quick': 50, 'thorough': 600}
RULE = ('random chains (1-5 ops) of Browser()/filter_by/select_by/merge over 0-30 items with 0-6 metadata keys from a '
        'small pool, values int/str/tuple/bool/float with ==-collisions, present and absent keys/values, custom data '
        'keys with unhashable data; non-trivial = at least one filter/select returned a non-empty proper subset or an '
        'error; distinct = distinct (case) hashes')
CORRESPONDS = 'Model/Browser.lean (mk\', filterBy, selectBy, merge, keys, availableValues) vs valjean.eponine.browser.Browser'
TRUSTED = ['harness/props/c17.py (generator, canonicaliser, direct-scan oracle)', 'vjdriver (compiled Model/Browser.lean)',
           'Python dict/set semantics as transcribed (insertion order, == / hash classes assigned by the harness)']
ASSUMPTIONS = ["the reserved key 'index' is not used as user metadata (documented: Browser adds it)",
               'metadata values are hashable; equality classes are those of Python ==']

ATOMS = ['spam', 'egg', 'bacon', (1, 2), ('a', 1), 1.5, None, '', 'index', ('spam',), -0.5, 'results']
KEYS = ['menu', 'drink', 'consumer', 'dessert', 'k', 'results', 'data', 'x y']


def dec(v, unhash=False):
    if isinstance(v, int):
        return v
    tag, num = v[0], int(v[1:])
    if tag == 'a':
        return ATOMS[num]
    if tag == 'b':
        return bool(num)
    if tag == 'f':
        return float(num)
    if tag == 'd':
        return [num] if unhash else ('payload', num)
    raise ValueError(v)


_ATOM_ID = {a: i for i, a in enumerate(ATOMS)}


def enc(v):
    """canonical code of a python value as seen by the model (ints by value, atoms by class id)"""
    if isinstance(v, list):
        return f'a{1000 + v[0]}'
    if isinstance(v, tuple) and len(v) == 2 and v[0] == 'payload':
        return f'a{1000 + v[1]}'
    if isinstance(v, (bool, int, float)) and v == int(v):
        return int(v)
    return f'a{_ATOM_ID[v]}'


def to_model_val(v):
    if isinstance(v, int):
        return v
    tag, num = v[0], int(v[1:])
    if tag in 'bf':
        return num
    if tag == 'd':
        return f'a{1000 + num}'
    return v


def gen_val(rng):
    r = rng.random()
    if r < 0.35:
        return rng.randrange(-1, 4)
    if r < 0.45:
        return f'b{rng.randrange(2)}'
    if r < 0.52:
        return f'f{rng.randrange(3)}'
    return f'a{rng.randrange(len(ATOMS))}'


def gen(rng, tier, run):
    data_key = rng.choice(['results', 'results', 'data', 'k'])
    unhash = rng.random() < 0.5
    nkeys = rng.randrange(0, 7)
    keys = [k for k in rng.sample(KEYS, min(nkeys, len(KEYS))) if k != data_key]
    payload = [0]

    def items(n, data_key=data_key):
        out = []
        for _ in range(n):
            it = []
            order = keys[:]
            rng.shuffle(order)
            for k in order:
                if rng.random() < 0.6:
                    it.append([k, gen_val(rng)])
            if rng.random() < 0.95:
                payload[0] += 1
                it.insert(rng.randrange(len(it) + 1), [data_key, f'd{payload[0]}'])
            out.append(it)
        return out

    def gen_glob():
        return [[rng.choice(['g1', 'g2', 'g3']), gen_val(rng)] for _ in range(rng.randrange(0, 3))]

    nmax = rng.choice([0, 1, 3, 8, 30])
    ops = [['new', items(rng.randrange(0, nmax + 1)), data_key, gen_glob()]]
    nvars = 1
    for _ in range(rng.randrange(1, 5)):
        r = rng.random()
        if r < 0.12:
            dkey = data_key if rng.random() < 0.9 else 'other'
            ops.append(['new', items(rng.randrange(0, 5), dkey), dkey, gen_glob()])
        elif r < 0.3 and nvars >= 1:
            ops.append(['merge', rng.randrange(nvars), rng.randrange(nvars)])
        else:
            kwargs = []
            pool = keys + keys + ['index', 'absent'] + ([data_key] if rng.random() < 0.05 else [])
            pool = list(dict.fromkeys(pool)) if rng.random() < 0.3 else [k for k in dict.fromkeys(pool) if k != 'absent' or rng.random() < 0.3]
            present = {}
            for o in ops:
                if o[0] == 'new':
                    for pos, it in enumerate(o[1]):
                        present.setdefault('index', []).append(pos)
                        for k, v in it:
                            if k != o[2]:
                                present.setdefault(k, []).append(v)
            for k in rng.sample(pool, min(len(pool), rng.choice([0, 1, 1, 1, 2, 3]))):
                if k in present and rng.random() < 0.8:
                    kwargs.append([k, rng.choice(present[k])])
                else:
                    kwargs.append([k, gen_val(rng)])
            incl = rng.sample(keys + ['absent', data_key, 'index'], rng.choice([0, 0, 0, 1, 2]))
            excl = rng.sample(keys + ['absent', 'other'], rng.choice([0, 0, 0, 1, 2]))
            ops.append(['filter' if r < 0.75 else 'select', rng.randrange(nvars), kwargs, incl, excl])
        nvars += 1
    return {'unhash': unhash, 'ops': ops}


def shrink(case):
    ops = case['ops']
    for i in range(len(ops) - 1, 0, -1):
        if all((o[0] == 'new') or all(v < i for v in ([o[1]] if o[0] != 'merge' else o[1:3])) for o in ops[i + 1:]):
            # dropping op i is allowed only if later ops do not refer to a later variable: renumber
            new = []
            ok = True
            for j, o in enumerate(ops):
                if j == i:
                    continue
                o = copy.deepcopy(o)
                refs = [1] if o[0] in ('filter', 'select') else ([1, 2] if o[0] == 'merge' else [])
                for r in refs:
                    if o[r] == i:
                        ok = False
                    elif o[r] > i:
                        o[r] -= 1
                new.append(o)
            if ok:
                yield {'unhash': case['unhash'], 'ops': new}
    for i, o in enumerate(ops):
        if o[0] == 'new':
            for j in range(len(o[1])):
                new = copy.deepcopy(ops)
                del new[i][1][j]
                yield {'unhash': case['unhash'], 'ops': new}
            for j, it in enumerate(o[1]):
                for k in range(len(it)):
                    new = copy.deepcopy(ops)
                    del new[i][1][j][k]
                    yield {'unhash': case['unhash'], 'ops': new}
        elif o[0] in ('filter', 'select'):
            for part in (2, 3, 4):
                for j in range(len(o[part])):
                    new = copy.deepcopy(ops)
                    del new[i][part][j]
                    yield {'unhash': case['unhash'], 'ops': new}


def dump_browser(brw):
    keys = sorted(brw.keys())
    return {'content': [[[k, enc(v)] for k, v in it.items()] for it in brw.content],
            'dataKey': brw.data_key,
            'globals': [[k, enc(v)] for k, v in brw.globals.items()],
            'keys': keys,
            'avail': [[k, sorted(vkey(enc(v)) for v in brw.available_values(k))] for k in keys]}


def vkey(code):
    return f'i{code}' if isinstance(code, int) else code


def snapshot(brw):
    return (copy.deepcopy(brw.content), brw.data_key, copy.deepcopy(brw.globals),
            {k: {v: set(s) for v, s in d.items()} for k, d in brw.index.index.items()})


def run_impl(case, run):
    from valjean.eponine import browser as bmod
    unhash = case['unhash']
    brs, outs, inputs = [], [], []
    side = []          # non-mutation checks
    for op in case['ops']:
        snaps = [(b, snapshot(b)) for b in brs if b is not None]
        try:
            if op[0] == 'new':
                content = [{k: dec(v, unhash) for k, v in it} for it in op[1]]
                glob = {k: dec(v) for k, v in op[3]}
                before = (copy.deepcopy(content), copy.deepcopy(glob))
                brw = bmod.Browser(content, data_key=op[2], global_vars=glob)
                inputs.append((content, glob, before))
                brs.append(brw)
                outs.append(dump_browser(brw))
            elif op[0] == 'filter':
                par = brs[op[1]]
                if par is None:
                    brs.append(None)
                    outs.append('novar')
                else:
                    kwargs = {k: dec(v) for k, v in op[2]}
                    brw = par.filter_by(include=tuple(op[3]), exclude=tuple(op[4]), **kwargs)
                    brs.append(brw)
                    out = dump_browser(brw)
                    out['_data_same_objects'] = all(
                        any(it.get(par.data_key) is pit.get(par.data_key) for pit in par.content)
                        for it in brw.content if par.data_key in it)
                    outs.append(out)
            elif op[0] == 'select':
                par = brs[op[1]]
                brs.append(None)
                if par is None:
                    outs.append('novar')
                else:
                    kwargs = {k: dec(v) for k, v in op[2]}
                    try:
                        it = par.select_by(include=tuple(op[3]), exclude=tuple(op[4]), **kwargs)
                        outs.append({'item': [[k, enc(v)] for k, v in it.items()]})
                    except bmod.NoItemBrowserError:
                        outs.append('NoItem')
                    except bmod.TooManyItemsBrowserError:
                        outs.append('TooMany')
            elif op[0] == 'merge':
                one, two = brs[op[1]], brs[op[2]]
                if one is None or two is None:
                    brs.append(None)
                    outs.append('novar')
                else:
                    try:
                        brw = one.merge(two)
                        brs.append(brw)
                        outs.append(dump_browser(brw))
                    except ValueError:
                        brs.append(None)
                        outs.append('ValueError')
        except Exception as exc:  # pylint: disable=broad-except
            brs.append(None)
            outs.append({'error': type(exc).__name__, 'msg': str(exc)[:200]})
        for brw, snap in snaps:
            if snapshot(brw) != snap:
                side.append(f'op {op[0]} modified an existing browser')
        # questions that only read: asking for a key that no item carries, for the data key, the keys, the length, the text
        for brw in brs:
            if brw is None:
                continue
            snap = snapshot(brw)
            keys_before = sorted(brw.keys())
            try:
                brw.available_values('no-such-key')
                brw.available_values(brw.data_key)
                _ = 'no-such-key' in brw.keys(), len(brw), str(brw), repr(brw)
            except Exception as exc:  # pylint: disable=broad-except
                side.append(f'a read-only question raised {type(exc).__name__}: {exc}'[:160])
            if snapshot(brw) != snap or sorted(brw.keys()) != keys_before:
                side.append('asking for the available values of a key that no item carries (or the keys, the length, the '
                            'text) modified the browser')
        for content, glob, before in inputs:
            if (content, glob) != before:
                side.append(f'op {op[0]} modified an input dictionary')
    return {'outs': outs, 'side': side}


def run_model(case, driver, run):
    ops = []
    for op in case['ops']:
        if op[0] == 'new':
            ops.append(['new', [[[k, to_model_val(v)] for k, v in it] for it in op[1]], op[2],
                        dedup([[k, to_model_val(v)] for k, v in op[3]])])
        elif op[0] in ('filter', 'select'):
            ops.append([op[0], op[1], [[k, to_model_val(v)] for k, v in op[2]], op[3], op[4]])
        else:
            ops.append(op)
    rep = driver.ask('browser', ops)
    return {'outs': rep}


def dedup(pairs):
    out = {}
    for k, v in pairs:
        out[k] = v
    return [[k, v] for k, v in out.items()]


def compare(case, impl, model):
    from vcheck.runner import first_diff
    outs = []
    for o in impl['outs']:
        if isinstance(o, dict) and '_data_same_objects' in o:
            o = {k: v for k, v in o.items() if k != '_data_same_objects'}
        if isinstance(o, dict) and 'error' in o:
            o = {'error': o['error']}
        outs.append(o)
    return first_diff(outs, model['outs'])


def expected_pick(parent, data_key, kwargs, incl, excl):
    """direct scan of the parent's content (items as [[k, code], ...])"""
    res = []
    for it in parent:
        dct = dict((k, v) for k, v in it)
        if all(k != data_key and k in dct and dct[k] == to_model_val(v) for k, v in kwargs) \
                and all(k in dct for k in incl) and not any(k in dct for k in excl):
            res.append(it)
    return res


def strip_index(it):
    return [[k, v] for k, v in it if k != 'index']


def oracle(case, impl, run):
    fails = []
    outs = impl['outs']
    nontrivial = False
    for i, (op, out) in enumerate(zip(case['ops'], outs)):
        run.count('op:' + op[0])
        if isinstance(out, dict) and 'error' in out:
            run.count('error:' + out['error'])
            fails.append(('no_unexpected_exception', f"op {i} {op[0]} raised {out['error']}: {out.get('msg')}"))
            continue
        if op[0] == 'new':
            exp = [[k, to_model_val(v)] for k, v in dedup(op[3])]
            if out['dataKey'] != op[2] or out['globals'] != exp:
                fails.append(('constructor', f'op {i}'))
            exp_items = [dedup([[k, to_model_val(v)] for k, v in it]) for it in op[1]]
            if [strip_index(it) for it in out['content']] != [strip_index(it) for it in exp_items]:
                fails.append(('constructor_content', f'op {i}'))
        elif op[0] in ('filter', 'select'):
            par = outs[op[1]]
            if not isinstance(par, dict) or 'content' not in par:
                continue
            if any(k == par['dataKey'] for k, _ in op[2]):
                run.count('query_on_data_key')
                continue
            exp = expected_pick(par['content'], par['dataKey'], op[2], op[3], op[4])
            if 0 < len(exp) < len(par['content']) or (op[0] == 'select' and len(exp) != 1):
                nontrivial = True
            run.count(f'{op[0]}:matches={min(len(exp), 3)}' + ('+' if len(exp) > 3 else ''))
            if op[0] == 'filter':
                got = [strip_index(it) for it in out['content']]
                if got != [strip_index(it) for it in exp]:
                    fails.append(('filter_eq_scan', f'op {i}: expected {len(exp)} items, got {len(got)}'))
                if [dict(map(tuple, it)).get('index') for it in out['content']] != list(range(len(out['content']))):
                    fails.append(('filter_index_positions', f'op {i}'))
                if out['dataKey'] != par['dataKey']:
                    fails.append(('filter_keeps_data_key', f"op {i}: {out['dataKey']!r} != {par['dataKey']!r}"))
                if out['globals'] != par['globals']:
                    fails.append(('filter_keeps_globals', f'op {i}'))
                if not out.get('_data_same_objects', True):
                    fails.append(('filter_data_untouched', f'op {i}'))
            else:
                if len(exp) == 0 and out != 'NoItem':
                    fails.append(('select_none_raises', f'op {i}: {out!r}'[:200]))
                elif len(exp) > 1 and out != 'TooMany':
                    fails.append(('select_several_raises', f'op {i}: {out!r}'[:200]))
                elif len(exp) == 1 and (not isinstance(out, dict) or out.get('item') != exp[0]):
                    fails.append(('select_single', f'op {i}: {out!r} vs {exp[0]!r}'[:300]))
        elif op[0] == 'merge':
            one, two = outs[op[1]], outs[op[2]]
            if not (isinstance(one, dict) and isinstance(two, dict) and 'content' in one and 'content' in two):
                continue
            if one['dataKey'] != two['dataKey']:
                if out != 'ValueError':
                    fails.append(('merge_data_key', f'op {i}'))
                continue
            if not isinstance(out, dict):
                fails.append(('merge_result', f'op {i}: {out!r}'))
                continue
            exp = [strip_index(it) for it in one['content'] + two['content']]
            if [strip_index(it) for it in out['content']] != exp:
                fails.append(('merge_concat', f'op {i}'))
            glob = dict(map(tuple, one['globals']))
            glob.update(dict(map(tuple, two['globals'])))
            if dict(map(tuple, out['globals'])) != glob or out['dataKey'] != one['dataKey']:
                fails.append(('merge_globals', f'op {i}'))
    for msg in impl['side']:
        fails.append(('inputs_never_modified', msg))
    impl['_nontrivial'] = nontrivial
    return fails


def nontrivial(case, impl):
    return case if impl.get('_nontrivial') else None


def signature(case, clause, detail):
    if clause in ('no_unexpected_exception', 'filter_keeps_data_key'):
        custom = any(o[0] == 'new' and o[2] != 'results' for o in case['ops'])
        if custom:
            return 'A20:filter_by-drops-data-key'
    return clause
