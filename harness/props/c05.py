"""C05 — the Student verdict is true exactly when every bin is statistically compatible."""
import math
from vcheck.fl import bits, unbits, ulps

PROPERTY = 'C05'
THEOREMS = ['Student.verdict_iff_all_bins', 'Student.oracle_iff_ratio', 'Student.tStat_symm', 'Student.oracle_symmetric',
            'Student.scale_invariant', 'Student.monotone_diff', 'Student.monotone_err', 'Student.one_sided_nan_value_false',
            'Student.one_sided_nan_error_false', 'Student.zero_zero_passes', 'Student.pvalue_agrees',
            'Student.verdict_false_of_bad_bin']
BUDGET = {'quick': 1200, 'thorough': 20000}
TIME_LIMIT = {'quick': 50, 'thorough': 800}
RULE = ('datasets of shape () to 3-d (1-60 bins), 1-3 compared datasets drawn around the reference at 0-6 sigma, errors '
        '>= 0 with zeros (0/0 bins included) and, in 10% of the cases, strictly positive errors whose squares underflow, '
        'integer-valued datasets given as integer arrays (15%), NaN and infinities injected in values and errors of either side, alpha '
        'log-uniform in (1e-4, 1), ndf None, 1-10000 or non-integral (1.5, 2.75, uniform in 1-40); critical value and p-values recomputed independently; each case also evaluated swapped, rescaled by a power of two, with '
        'one difference grown and one error shrunk; non-trivial = some but not all bins compatible, or a special value; '
        'distinct = case hash')
CORRESPONDS = ('Model/Student.lean (tStat with its three conventions, oracle, verdict, pDecision) vs '
               'TestStudent.evaluate / TestResultStudent.oracles / __bool__ / test_pvalue (t bit-exact)')
TRUSTED = ['harness/props/c05.py (generator, recomputation of the clauses)', 'vjdriver (compiled Model/Student.lean, IEEE binary64)',
           'scipy norm/t ppf and sf: the critical value and the p-values are passed to the model as data; the assumptions '
           'used by pvalue_agrees (sf strictly decreasing on [0, inf), 2 sf(threshold) = alpha) are checked numerically on every case']
ASSUMPTIONS = ['a bin whose two values are both NaN is compatible by the documented convention of the code, whatever its errors; '
               '"NaN on one side only" = exactly one value NaN, or (values not both NaN and) exactly one error NaN',
               'rounding is not modelled by the theorems (exact reals + IEEE special values); t is compared bit for bit',
               '0-d datasets: numpy scalars use libm pow() for **2, t compared within 4 ulp there',
               'no agreement between the p-value decision and the oracle is demanded when |t| is within 1e-9 (relative) of the critical value',
               'scale invariance is checked with powers of two on inputs of moderate magnitude (exact in binary64)']


def gen(rng, tier, run):
    shape = rng.choice([[], [], [1], [3], [5], [17], [60], [2, 3], [4, 5], [2, 2, 3], [1, 1]])
    size = 1
    for n in shape:
        size *= n
    nds = rng.choice([1, 1, 2, 3])
    alpha = 10 ** rng.uniform(-4, -0.02) if rng.random() < 0.8 else rng.choice([0.01, 0.05, 0.5])
    if rng.random() < 0.06:
        alpha = 10 ** rng.uniform(-40, -12)      # very strict levels: 1 - alpha/2 rounds to 1, alpha/2 does not round to 0
    ndf = None if rng.random() < 0.5 else rng.choice([1, 2, 5, 30, 1000, rng.randrange(1, 10000),
                                                      # degrees of freedom need not be whole numbers (Welch-Satterthwaite)
                                                      1.5, 2.75, round(rng.uniform(1.0, 40.0), 2)])
    spread = rng.choice([0.5, 1.0, 2.0, 3.0, 6.0, 6.0, 12.0, 40.0])
    special = rng.random() < 0.35

    tiny = rng.random() < 0.1       # strictly positive errors whose squares underflow

    def cell_err():
        r = rng.random()
        if r < 0.12:
            return 0.0
        if tiny and r < 0.5:
            return rng.choice([1e-170, 5e-324, 1e-200, 2.2250738585072014e-308, 1.4e-162])
        return rng.choice([rng.uniform(0.01, 5.0), float(rng.randrange(1, 5))])

    ref_v = [rng.choice([rng.uniform(-100, 100), float(rng.randrange(-5, 6))]) for _ in range(size)]
    ref_e = [cell_err() for _ in range(size)]
    dss = []
    for _ in range(nds):
        e = [cell_err() for _ in range(size)]
        v = []
        for i in range(size):
            sig = math.sqrt(ref_e[i] ** 2 + e[i] ** 2)
            r = rng.random()
            if r < 0.15:
                v.append(ref_v[i])
            elif sig == 0:
                v.append(ref_v[i] + rng.choice([0.0, 0.0, 1.0, -0.5, 1e-9, -2e-10, 3e-13]))   # zero errors: any difference is infinite
            else:
                v.append(ref_v[i] + rng.gauss(0, spread) * sig)
        dss.append({'v': v, 'e': e})
    ref = {'v': ref_v, 'e': ref_e}
    if special:
        for _ in range(rng.randrange(1, 4)):
            tgt = rng.choice([ref] + dss)
            arr = tgt[rng.choice('ve')]
            i = rng.randrange(size)
            val = rng.choice([float('nan'), float('nan'), float('inf'), float('-inf')])
            if arr is tgt['e'] and val < 0:
                val = float('inf')
            arr[i] = val
            if rng.random() < 0.4:      # the same special value on the other side too
                other = rng.choice([d for d in [ref] + dss if d is not tgt])
                other['v' if arr is tgt['v'] else 'e'][i] = val

    # integer-valued datasets (legal input: Dataset accepts integer arrays)
    if rng.random() < 0.15:
        for d in [ref] + dss:
            if rng.random() < 0.6 and all(math.isfinite(x) for x in d['v'] + d['e']):
                d['v'] = [float(round(x)) for x in d['v']]
                d['e'] = [float(round(x)) for x in d['e']]
                d['int'] = True

    def enc(d):
        out = {'v': [bits(x) for x in d['v']], 'e': [bits(x) for x in d['e']]}
        if d.get('int'):
            out['int'] = True
        return out
    return {'shape': shape, 'ref': enc(ref), 'dss': [enc(d) for d in dss], 'alpha': alpha, 'ndf': ndf,
            'k': rng.randrange(-20, 21), 'cell': rng.randrange(size), 'grow': rng.uniform(0.1, 3.0)}


def shrink(case):
    if len(case['dss']) > 1:
        for i in range(len(case['dss'])):
            yield dict(case, dss=case['dss'][:i] + case['dss'][i + 1:])
    size = len(case['ref']['v'])
    if size > 1:
        for i in range(size):
            def cut(d):
                return dict(d, v=d['v'][:i] + d['v'][i + 1:], e=d['e'][:i] + d['e'][i + 1:])
            yield dict(case, shape=[size - 1], ref=cut(case['ref']), dss=[cut(d) for d in case['dss']],
                       cell=min(case['cell'], size - 2))


def mkds(d, shape, scale=1.0):
    import numpy as np
    from valjean.eponine.dataset import Dataset
    v = [unbits(x) * scale for x in d['v']]
    e = [unbits(x) * scale for x in d['e']]
    # integer dtype only when the (rescaled) numbers still are integers
    asint = bool(d.get('int')) and all(math.isfinite(x) and x == int(x) and abs(x) < 2 ** 53 for x in v + e)
    dtype = int if asint else float
    if shape:
        return Dataset(np.array(v, dtype=dtype).reshape(shape), np.array(e, dtype=dtype).reshape(shape))
    return Dataset(np.int64(v[0]), np.int64(e[0])) if asint else Dataset(np.float64(v[0]), np.float64(e[0]))


_FLAGS = {}


def evaluate(ref, dss, alpha, ndf):
    import numpy as np
    from valjean.gavroche.stat_tests.student import TestStudent
    test = TestStudent(ref, *dss, name='t', alpha=alpha, ndf=ndf)
    res = test.evaluate()
    tpv = res.test_pvalue()
    # the same test object evaluated once more gives the same result
    res2 = test.evaluate()
    same_again = (bool(res2) == bool(res) and len(res2.tstud) == len(res.tstud)
                  and all(np.array_equal(np.asarray(a, dtype=float), np.asarray(b, dtype=float), equal_nan=True)
                          for a, b in zip(res.tstud, res2.tstud))
                  and all(np.array_equal(np.asarray(a, dtype=float), np.asarray(b, dtype=float), equal_nan=True)
                          for a, b in zip(res.pvalue, res2.pvalue)))
    _FLAGS['same_object_again'] = _FLAGS.get('same_object_again', True) and same_again
    return {'t': [[bits(x) for x in np.asarray(t, dtype=float).flatten()] for t in res.tstud],
            'oracles': [[bool(x) for x in np.asarray(o).flatten()] for o in
                        (np.asarray(res.oracles()).reshape(len(dss), -1) if np.asarray(res.oracles()).size else [])],
            'verdict': bool(res),
            'p': [[bits(x) for x in np.asarray(p, dtype=float).flatten()] for p in res.pvalue],
            'pdec': (tpv if not isinstance(tpv, list) else
                     [[bool(x) for x in np.asarray(p).flatten()] for p in tpv]),
            'thr': bits(test.threshold)}


def run_impl(case, run):
    import warnings
    import numpy as np
    warnings.simplefilter('ignore')
    np.seterr(all='ignore')
    shape, alpha, ndf = case['shape'], case['alpha'], case['ndf']
    ref = mkds(case['ref'], shape)
    dss = [mkds(d, shape) for d in case['dss']]
    snap = [(np.asarray(d.value).tobytes(), np.asarray(d.error).tobytes()) for d in [ref] + dss]
    out = {}
    _FLAGS.clear()
    try:
        out.update(evaluate(ref, dss, alpha, ndf))
        out['again'] = evaluate(ref, dss, alpha, ndf) == {k: out[k] for k in ('t', 'oracles', 'verdict', 'p', 'pdec', 'thr')}
        out['inputs_unchanged'] = snap == [(np.asarray(d.value).tobytes(), np.asarray(d.error).tobytes()) for d in [ref] + dss]
        # symmetric: each compared dataset as the reference
        out['swapped'] = [evaluate(d, [ref], alpha, ndf) for d in dss]
        # common positive rescaling (a power of two: exact)
        c = 2.0 ** case['k']
        out['scaled'] = evaluate(mkds(case['ref'], shape, c), [mkds(d, shape, c) for d in case['dss']], alpha, ndf)
        # a difference grows / an error shrinks in one cell of the first compared dataset
        i = case['cell']
        d0 = {'v': list(case['dss'][0]['v']), 'e': list(case['dss'][0]['e'])}
        rv, dv = unbits(case['ref']['v'][i]), unbits(d0['v'][i])
        step = case['grow'] * (abs(dv - rv) + 1.0)
        grown = dv + step if dv >= rv else dv - step
        d0['v'][i] = bits(grown)
        out['grown'] = evaluate(ref, [mkds(d0, shape)], alpha, ndf)
        out['grown_ok'] = bool(abs(grown - rv) >= abs(dv - rv)) if all(map(math.isfinite, (rv, dv, grown))) else None
        d1 = {'v': list(case['dss'][0]['v']), 'e': list(case['dss'][0]['e'])}
        d1['e'][i] = bits(unbits(d1['e'][i]) * 0.5)
        out['shrunk'] = evaluate(ref, [mkds(d1, shape)], alpha, ndf)
        # the assumptions on the law used by the theorem pvalue_agrees
        from scipy.stats import norm, t as tlaw
        law = norm if ndf is None else tlaw(ndf)
        thr = unbits(out['thr'])
        # the critical value is the two-sided one of the requested law (independent recomputation)
        out['thr_want'] = bits(float(law.isf(alpha / 2.0)))       # (not ppf(1 - alpha/2): that is inf below alpha = 2.2e-16)
        # the p-values are the two-sided tails of the statistic (independent recomputation)
        bad_p = []
        for di, (ts, ps) in enumerate(zip(out['t'], out['p'])):
            for bi, (tb, pb) in enumerate(zip(ts, ps)):
                tval, pval = unbits(tb), unbits(pb)
                if math.isfinite(tval):
                    want = 2.0 * float(law.sf(abs(tval)))
                    if not (pval == want or abs(pval - want) <= 1e-9 * want):
                        bad_p.append([di, bi, tval, pval, want])
        out['bad_p'] = bad_p[:3]
        # datasets edited in place after a first comparison are compared as what they are now
        if shape and dss and np.asarray(dss[0].error).dtype.kind == 'f' and np.asarray(ref.value).dtype.kind == 'f':
            dss[0].error *= 2.0
            ref.value += 1.0
            fresh_ref = mkds(case['ref'], shape)
            fresh_ref.value += 1.0
            fresh = [mkds(d, shape) for d in case['dss']]
            fresh[0].error *= 2.0
            out['edited_same'] = evaluate(ref, dss, alpha, ndf) == evaluate(fresh_ref, fresh, alpha, ndf)
        out['same_object_again'] = _FLAGS.get('same_object_again', True)
        out['law'] = {'two_sf_thr': 2.0 * float(law.sf(thr)), 'antitone': bool(law.sf(thr * 0.999) >= law.sf(thr) >= law.sf(thr * 1.001)),
                      'sf_inf': float(law.sf(float('inf')))}
    except Exception as exc:  # pylint: disable=broad-except
        out['exception'] = f'{type(exc).__name__}: {exc}'[:200]
    _LAST['impl'] = out
    return out


_LAST = {}


def run_model(case, driver, run):
    impl = _LAST.get('impl') or {}
    if 'thr' not in impl:
        return {'skipped': True}
    return driver.ask('student', {'ref': case['ref'], 'dss': case['dss'], 'thr': impl['thr'], 'alpha': bits(case['alpha']),
                                  'p': impl['p']})


def near(tb, thr):
    t = abs(unbits(tb))
    return math.isfinite(t) and abs(t - thr) <= 1e-9 * thr


def compare(case, impl, model):
    if model.get('skipped'):
        return None if 'exception' in impl else 'model skipped'
    scalar = not case['shape']
    thr = unbits(impl['thr'])
    for di, (ti, tm) in enumerate(zip(impl['t'], model['t'])):
        if len(ti) != len(tm):
            return f'dataset {di}: {len(ti)} t values vs {len(tm)}'
        for bi, (a, b) in enumerate(zip(ti, tm)):
            if a != b and not (scalar and ulps(a, b) <= 4):
                return f't[{di}][{bi}]: impl={unbits(a)!r} model={unbits(b)!r}'
    if len(impl['t']) != len(model['t']):
        return 'number of compared datasets'
    fuzzy = scalar and any(near(a, thr) for ti in impl['t'] for a in ti)
    if not fuzzy:
        if impl['oracles'] != model['oracles']:
            return f"oracles: impl={impl['oracles']} model={model['oracles']}"
        if impl['verdict'] != model['verdict']:
            return f"verdict: impl={impl['verdict']} model={model['verdict']}"
    if impl['pdec'] != model['pdec']:
        return f"test_pvalue: impl={impl['pdec']} model={model['pdec']}"
    return None


def flat_same_abs(ta, tb, scalar):
    """|t| equal bit for bit (4 ulp for 0-d)"""
    for a, b in zip(ta, tb):
        x, y = bits(abs(unbits(a))), bits(abs(unbits(b)))
        if x != y and not (scalar and ulps(x, y) <= 4):
            return False
    return len(ta) == len(tb)


def oracle(case, impl, run):
    fails = []
    run.count(f"ndim={len(case['shape'])}")
    run.count('ndf=' + ('None' if case['ndf'] is None else 'given'))
    run.count(f"datasets={len(case['dss'])}")
    if 'exception' in impl:
        return [('no_exception', impl['exception'])]
    thr = unbits(impl['thr'])
    scalar = not case['shape']
    ref_v = [unbits(x) for x in case['ref']['v']]
    ref_e = [unbits(x) for x in case['ref']['e']]
    all_ok = True
    nbad = ngood = 0
    for di, d in enumerate(case['dss']):
        for bi in range(len(ref_v)):
            v1, e1, v2, e2 = ref_v[bi], ref_e[bi], unbits(d['v'][bi]), unbits(d['e'][bi])
            orc = impl['oracles'][di][bi]
            t = unbits(impl['t'][di][bi])
            ngood += orc
            nbad += not orc
            all_ok = all_ok and orc
            one_sided_nan = (math.isnan(v1) != math.isnan(v2)) or (math.isnan(e1) != math.isnan(e2) and not (math.isnan(v1) and math.isnan(v2)))
            if one_sided_nan:
                run.count('bin:one-sided NaN')
                if orc:
                    fails.append(('one_sided_nan_false', f'dataset {di} bin {bi}: ({v1}, {e1}) vs ({v2}, {e2}) accepted'))
                continue
            if any(map(math.isnan, (v1, e1, v2, e2))) or any(map(math.isinf, (v1, v2))):
                run.count('bin:special')
                continue
            sig = math.sqrt(e1 * e1 + e2 * e2)
            if sig == 0 and v1 == v2:
                run.count('bin:0/0')
                if not orc:
                    fails.append(('zero_zero_passes', f'dataset {di} bin {bi}: equal values with zero errors rejected'))
                continue
            ratio = abs(v1 - v2) / sig if sig else float('inf')
            if math.isfinite(ratio) and abs(ratio - thr) <= 1e-9 * thr:
                run.count('bin:near threshold (skipped)')
                continue
            run.count('bin:ratio checked')
            if orc != (ratio < thr):
                fails.append(('oracle_iff_ratio', f'dataset {di} bin {bi}: |{v1} - {v2}| / {sig} = {ratio} vs critical value {thr}: oracle {orc}'))
            # the p-value decision agrees with the oracle
            pdec = impl['pdec'][di][bi] if isinstance(impl['pdec'], list) else impl['pdec']
            if pdec != orc:
                fails.append(('pvalue_agrees', f'dataset {di} bin {bi}: oracle {orc} (|t| = {abs(t)}, critical {thr}) but '
                              f"test_pvalue() gives {pdec} (p = {unbits(impl['p'][di][bi])}, alpha = {case['alpha']})"))
    if impl['verdict'] != all_ok:
        fails.append(('verdict_iff_all_bins', f"verdict {impl['verdict']} but oracles all true = {all_ok}"))
    if not impl.get('again', True):
        fails.append(('deterministic', 'a second evaluate() gave a different result'))
    if not impl.get('inputs_unchanged', True):
        fails.append(('inputs_unchanged', 'evaluate() modified a dataset'))
    # symmetric
    for di, sw in enumerate(impl['swapped']):
        if not flat_same_abs(sw['t'][0], impl['t'][di], scalar) or sw['oracles'][0] != impl['oracles'][di]:
            fails.append(('symmetric', f'dataset {di}: swapping the two datasets changed |t| or the oracles'))
    # scale invariance (moderate magnitudes only: no overflow / underflow)
    vals = [abs(unbits(x)) for d in [case['ref']] + case['dss'] for x in d['v'] + d['e']]
    if all((x == 0 or 1e-100 < x < 1e100 or not math.isfinite(x)) for x in vals):
        sc = impl['scaled']
        ok = all(flat_same_abs(a, b, scalar) for a, b in zip(sc['t'], impl['t']))
        if not ok or sc['oracles'] != impl['oracles'] or sc['verdict'] != impl['verdict']:
            if not (scalar and any(near(a, thr) for ti in impl['t'] for a in ti)):
                fails.append(('scale_invariant', f"rescaling everything by 2**{case['k']} changed t, the oracles or the verdict"))
    # never improves when a difference grows / an error shrinks
    i = case['cell']
    if impl.get('grown_ok') and not (scalar and near(impl['t'][0][i], thr)):
        if impl['grown']['oracles'][0][i] and not impl['oracles'][0][i]:
            fails.append(('monotone_diff', f'bin {i}: rejected, accepted after its difference grew'))
        if impl['grown']['verdict'] and not (len(case['dss']) > 1 or impl['verdict']):
            fails.append(('monotone_diff', 'verdict improved after a difference grew'))
    e0 = unbits(case['dss'][0]['e'][i])
    if math.isfinite(e0) and not (scalar and near(impl['t'][0][i], thr)):
        v1, v2 = ref_v[i], unbits(case['dss'][0]['v'][i])
        # the 0/0 convention is not monotone by design: the bin passes when both errors vanish and the values agree
        if not (v1 == v2) and impl['shrunk']['oracles'][0][i] and not impl['oracles'][0][i]:
            fails.append(('monotone_err', f'bin {i}: rejected, accepted after an error shrank'))
    law = impl.get('law')
    if law:
        if 'thr_want' in impl:
            want_thr = unbits(impl['thr_want'])
            if not (thr == want_thr or abs(thr - want_thr) <= 1e-9 * abs(want_thr)):
                fails.append(('critical_value_of_requested_law',
                              f"critical value {thr} used for alpha={case['alpha']}, ndf={case['ndf']}; the two-sided "
                              f'critical value of that law is {want_thr}'))
        for di, bi, tval, pval, want in impl.get('bad_p', []):
            fails.append(('pvalue_is_two_sided_tail', f'dataset {di} bin {bi}: t = {tval!r}, p-value {pval!r}, two-sided tail {want!r}'))
        if impl.get('edited_same') is False:
            fails.append(('history_independent', 'datasets edited in place after a first comparison (error of the first compared '
                          'dataset doubled, reference values + 1) do not compare like new datasets with the same content'))
        if impl.get('same_object_again') is False:
            fails.append(('history_independent', 'a second evaluate() on the same test object gives another result'))
        if not law['antitone'] or law['sf_inf'] != 0.0 or abs(law['two_sf_thr'] - case['alpha']) > 1e-9 * case['alpha']:
            fails.append(('law_assumptions', f"scipy law does not satisfy the hypotheses of pvalue_agrees: {law} alpha={case['alpha']}"))
    run.count('verdict=' + str(impl['verdict']))
    return fails


def nontrivial(case, impl):
    if 'exception' in impl:
        return None
    flat = [o for l in impl['oracles'] for o in l]
    special = any(x in ('nan',) or not math.isfinite(unbits(x)) for d in [case['ref']] + case['dss'] for x in d['v'] + d['e'])
    if special or (any(flat) and not all(flat)):
        return case
    return None


def signature(case, clause, detail):
    return clause
