"""C20 — a written report contains every section and every result exactly once
(valjean/javert/rst.py Rst.format_report / FormattedRst.write, valjean/path.py sanitize_filename)."""
import os
import re
import shutil
import tempfile

PROPERTY = 'C20'
THEOREMS = ['Rep.pages_bijective', 'Rep.no_overwrite', 'Rep.result_exactly_once', 'Rep.toc_targets_written',
            'Rep.figures_written', 'Rep.bad_title_writes_nothing', 'Rep.write_ok_iff', 'Rep.c20_pinned_refuted']
BUDGET = {'quick': 1500, 'thorough': 30000}
TIME_LIMIT = {'quick': 50, 'thorough': 600}
RULE = ('random report trees (depth 0-6, 0-4 children per section, 0-3 results per section, optional plot per result, '
        'plots shared between results) with titles from a pool containing index, conf, figures, .static, a/b, "..", '
        '".", NUL, the empty string, unicode, spaces and repeated titles (also among siblings); written with '
        'Rst.format_report(...).write(tmpdir), 45% of the cases with another report formatted by the same Rst object before, or between formatting and writing; non-trivial = >= 3 sections and >= 2 results, or a rejected tree; '
        'distinct = case hash')
CORRESPONDS = 'Model/Report.lean (Report.pages, write, pagePath, resolveToc, validTitle) vs valjean.javert.rst.Rst.format_report + FormattedRst.write'
TRUSTED = ['harness/props/c20.py (generator, stub results/representation, page scanner, oracle)',
           'vjdriver (compiled Model/Report.lean)']
ASSUMPTIONS = ['matplotlib is replaced by a stub that writes the figure file (MplPlot.save is not exercised)',
               'toctree entries are resolved like Sphinx does: relative to the directory of the page listing them',
               'trees with equally titled sibling sections are checked by the oracle only (the code merges their pages; '
               'the property is read as not constraining the merge, see DESIGN.md C20)',
               'titles have no leading/trailing blanks and no angle brackets (toctree syntax)']

TITLES = ['Results', 'index', 'conf', 'figures', '.static', 'a/b', '..', '.', 'nul\x00x', '', 'Été 2024', 'two words',
          'A', 'B', 'C', 'D', 'Sub', 'x.y', '.templates', 'index.rst', 'Contents']
SAFE = [t for t in TITLES if t not in ('a/b', '..', '.', 'nul\x00x', '')]


def gen_tree(rng, depth, maxdepth, ids, pool, width):
    items = []
    for _ in range(rng.randrange(0, 4)):
        ids[0] += 1
        plot = None
        if rng.random() < 0.4:
            plot = rng.randrange(1, 6) if rng.random() < 0.5 else 100 + ids[0]
        if plot is not None and rng.random() < 0.04:
            plot = BAD_FIGURE
        if plot is None and rng.random() < 0.15:
            # a result with nothing to show at this verbosity (no table, no figure): its anchor and description are
            # still on the page
            items.append({'res': [ids[0], None, 'empty']})
        else:
            items.append({'res': [ids[0], plot]})
    if depth < maxdepth:
        for _ in range(rng.randrange(0, width + 1)):
            sub = gen_tree(rng, depth + 1, maxdepth, ids, pool, width)
            items.insert(rng.randrange(len(items) + 1), {'sec': sub})
    return {'title': rng.choice(pool), 'items': items}


def gen(rng, tier, run):
    r = rng.random()
    pool = SAFE if r < 0.55 else TITLES
    if r < 0.3:
        pool = ['A', 'B', 'C', 'D', 'Sub', 'Results', 'x.y', 'two words', 'Été 2024', 'index', 'figures']
    maxdepth = rng.choice([0, 1, 2, 2, 3, 3, 4, 5, 6])
    width = rng.choice([1, 2, 3, 4]) if maxdepth <= 3 else rng.choice([1, 2])
    tree = gen_tree(rng, 0, maxdepth, [0], pool, width)
    tree['title'] = rng.choice(['Main', 'index', 'Report'])
    if rng.random() < 0.6:   # mostly distinct siblings
        dedup(tree, rng)
    # the same Rst object also formats another report: before this one, or between formatting and writing this one
    r = rng.random()
    if r < 0.15:
        tree['other'] = 'before'
    elif r < 0.45:
        tree['other'] = 'between'
    # the formatted report written a second time (into another directory), figures written by worker subprocesses
    tree['twice'] = rng.random() < 0.25
    tree['workers'] = rng.choice([None, None, None, 2])
    return tree


def dedup(tree, rng):
    seen = set()
    for it in tree['items']:
        if 'sec' in it:
            while it['sec']['title'] in seen:
                it['sec']['title'] = rng.choice(SAFE) + str(rng.randrange(100))
            seen.add(it['sec']['title'])
            dedup(it['sec'], rng)


def shrink(case):
    items = case['items']
    for i in range(len(items)):
        yield dict(case, items=items[:i] + items[i + 1:])
    for i, it in enumerate(items):
        if 'sec' in it:
            for sub in shrink(it['sec']):
                yield dict(case, items=items[:i] + [{'sec': sub}] + items[i + 1:])


def sections(tree, chain=()):
    """pre-order list of (chain, node)"""
    out = [(chain, tree)]
    for it in tree['items']:
        if 'sec' in it:
            out.extend(sections(it['sec'], chain + (it['sec']['title'],)))
    return out


_STUBS = {}


def stubs():
    if _STUBS:
        return _STUBS
    import numpy as np
    from valjean.gavroche.test import Test, TestResult
    from valjean.javert.templates import TableTemplate, PlotTemplate, SubPlotElements, CurveElements
    from valjean.javert.verbosity import Verbosity
    import valjean.javert.rst as rstmod

    class StubTest(Test):
        '''scripted test'''
        def evaluate(self):
            return None

    class StubResult(TestResult):
        '''scripted result'''
        def __init__(self, test, plot):
            super().__init__(test)
            self.plot = plot

        def __bool__(self):
            return True

    class StubRepr:
        '''representation returning one table and, optionally, one plot'''
        verbosity = Verbosity.DEFAULT

        def __call__(self, result):
            if getattr(result, 'empty', False):
                return []
            out = [TableTemplate(np.array([1.0]), np.array([2.0]), headers=['v', 'w'])]
            if result.plot is not None:
                curve = CurveElements(np.array([float(result.plot)]), bins=[np.array([0., 1.])], legend='c')
                out.append(PlotTemplate(subplots=[SubPlotElements(curves=[curve])]))
            return out

    rstmod.MplPlot = StubMplPlot
    _STUBS.update(StubTest=StubTest, StubResult=StubResult, StubRepr=StubRepr)
    return _STUBS


BAD_FIGURE = 666      # a figure whose drawing fails: the writing must fail too, not leave a page pointing to nothing


class StubMplPlot:
    '''stands for matplotlib: save() writes the figure file (module level: worker subprocesses pickle it)'''
    def __init__(self, data, **_kw):
        self.data = data

    def save(self, path):
        if int(self.data.subplots[0].curves[0].values[0]) == BAD_FIGURE:
            raise RuntimeError('this figure cannot be drawn')
        with open(path, 'wb') as fobj:
            fobj.write(b'PNG')


def build(tree, maps):
    from valjean.javert.test_report import TestReport
    from valjean.fingerprint import fingerprint
    stb = stubs()
    content = []
    for it in tree['items']:
        if 'sec' in it:
            content.append(build(it['sec'], maps))
        else:
            rid, plot = it['res'][:2]
            test = stb['StubTest'](name=f'test{rid}', description=f'result number {rid}')
            maps['anchor'][fingerprint(test)] = rid
            res = stb['StubResult'](test, plot)
            res.empty = len(it['res']) > 2
            content.append(res)
    return TestReport(title=tree['title'], text='some text', content=content)


def run_impl(case, run):
    from valjean.javert.rst import Rst
    from valjean.fingerprint import fingerprint
    stb = stubs()
    maps = {'anchor': {}}
    base = tempfile.mkdtemp(prefix='c20_')
    root = os.path.join(base, 'report')
    out = {}
    try:
        report = build(case, maps)
        rst = Rst(stb['StubRepr'](), n_workers=case.get('workers'))
        def other_report():
            decoy = {'title': 'Another report', 'items': [{'res': [900001, None]}, {'sec': {'title': 'S', 'items': [{'res': [900002, 7]}]}}]}
            try:
                rst.format_report(report=build(decoy, {'anchor': {}}), author='someone else', version='1')
            except Exception:  # pylint: disable=broad-except
                pass
        try:
            if case.get('other') == 'before':
                other_report()
            fmt = rst.format_report(report=report, author='me', version='0')
            if case.get('other') == 'between':
                other_report()
            plot_ids = {}
            for fpr, mpl in fmt.plots.items():
                plot_ids[str(fpr)] = int(mpl.data.subplots[0].curves[0].values[0])
            if case.get('twice'):
                # what is read below is the second writing; the first one goes to another directory
                try:
                    fmt.write(os.path.join(base, 'first', 'report'))
                finally:
                    shutil.rmtree(os.path.join(base, 'first'), ignore_errors=True)
            fmt.write(root)
            out['error'] = None
        except Exception as exc:  # pylint: disable=broad-except
            out['error'] = type(exc).__name__
            out['error_msg'] = str(exc)[:200]
            plot_ids = {}
        files = []
        for dirpath, _dirs, fnames in os.walk(base):
            for fname in fnames:
                files.append(os.path.relpath(os.path.join(dirpath, fname), root))
        out['outside'] = sorted(f for f in files if f.startswith('..'))
        files = sorted(f for f in files if not f.startswith('..'))
        pages = []
        for rel in files:
            if not rel.endswith('.rst'):
                continue
            with open(os.path.join(root, rel), encoding='utf-8') as fobj:
                text = fobj.read()
            anchors = [maps['anchor'].get(a, a) for a in re.findall(r'^\.\. _anchor_(\w+):', text, re.M)]
            images = [plot_ids.get(p, p) for p in re.findall(r'^\.\. image:: /figures/plot_(\w+)\.png', text, re.M)]
            toc = []
            if '.. toctree::' in text:
                block = text.split('.. toctree::', 1)[1]
                for line in block.split('\n')[1:]:
                    if line.startswith('    ') and not line.strip().startswith(':'):
                        toc.append(os.path.normpath(os.path.join(os.path.dirname(rel), line[4:])))
                    elif line.strip() and not line.startswith('    '):
                        break
            pages.append({'path': rel[:-4], 'anchors': anchors, 'images': images, 'toc': toc})
        norm = []
        for f in files:
            m = re.fullmatch(r'figures/plot_(\w+)\.png', f)
            norm.append(f'figures/plot_{plot_ids.get(m.group(1), m.group(1))}.png' if m else f)
        out['files'] = sorted(norm)
        out['pages'] = pages
    finally:
        shutil.rmtree(base, ignore_errors=True)
    return out


def has_bad_figure(tree):
    return any((('res' in it and it['res'][1] == BAD_FIGURE) or ('sec' in it and has_bad_figure(it['sec']))) for it in tree['items'])


def run_model(case, driver, run):
    if has_bad_figure(case):
        return None               # the model has no failing figures: oracle only
    return driver.ask('report', {k: v for k, v in case.items() if k not in ('other', 'twice', 'workers')})


def compare(case, impl, model):
    from vcheck.runner import first_diff
    if model.get('dup'):
        return None
    if 'error' in model:
        exp_err = {'badTitle': 'ValueError', 'tooDeep': 'ValueError', 'collision': 'ValueError'}[model['error']]
        if impl['error'] != exp_err:
            return f"model rejects ({model['error']}) but impl error={impl['error']}"
        if impl['files'] or impl['outside']:
            return f"model: nothing written; impl wrote {impl['files'][:5]} {impl['outside'][:3]}"
        return None
    if impl['error']:
        return f"impl raised {impl['error']}: {impl.get('error_msg')} but the model accepts"
    mod = {'files': model['files'], 'pages': sorted(model['pages'], key=lambda p: p['path'])}
    imp = {'files': [f for f in impl['files'] if f not in ()], 'pages': sorted(impl['pages'], key=lambda p: p['path'])}
    return first_diff(imp, mod)


def valid_title(t):
    return '\x00' not in t and '/' not in t and t not in ('.', '..', '')


def oracle(case, impl, run):
    fails = []
    secs = sections(case)
    chains = [c for c, _ in secs]
    depth = max(len(c) for c in chains)
    results = [it['res'] for _, node in secs for it in node['items'] if 'res' in it]
    dup_siblings = any(len({it['sec']['title'] for it in node['items'] if 'sec' in it})
                       != len([1 for it in node['items'] if 'sec' in it]) for _, node in secs)
    bad_title = any(not valid_title(t) for c in chains for t in c)
    run.count(f'depth={depth}')
    run.count(f'sections={min(len(secs), 10)}' + ('+' if len(secs) > 10 else ''))
    run.count('dup_siblings' if dup_siblings else 'distinct_siblings')
    impl['_nontrivial'] = (len(secs) >= 3 and len(results) >= 2) or bad_title or depth >= 5
    if impl['outside']:
        fails.append(('bad_title_writes_nothing', f"files written outside the report directory: {impl['outside']}"))
    if bad_title or depth >= 5:
        run.count('reject:title' if bad_title else 'reject:depth')
        if impl['error'] is None:
            fails.append(('bad_title_writes_nothing', 'a title that cannot be a file name (or a section deeper than the '
                          'supported levels) was accepted'))
        elif impl['error'] != 'ValueError':
            fails.append(('bad_title_writes_nothing', f"rejected with {impl['error']}: {impl.get('error_msg')}"))
        if impl['files']:
            fails.append(('bad_title_writes_nothing', f"rejected, but files were written first: {impl['files'][:6]}"))
        return fails
    paths = ['/'.join(c) if c else 'index' for c in chains]
    distinct = sorted(set(chains))
    dpaths = ['/'.join(c) if c else 'index' for c in distinct]
    files = ['conf.py', '.static/valjean.css'] + [p + '.rst' for p in dpaths]
    dirs = {'figures', '.static', '.templates'}
    for f in files:
        parts = f.split('/')
        dirs.update('/'.join(parts[:n]) for n in range(1, len(parts)))
    if len(set(files)) != len(files) or dirs.intersection(files):
        run.count('reject:collision')
        # two different sections (or a section and a file/directory of the report skeleton) need the same path:
        # an explicit rejection is required (no page overwritten)
        if impl['error'] is None:
            fails.append(('no_overwrite', f'paths {sorted(set(f for f in files if files.count(f) > 1) | dirs.intersection(files))[:4]} '
                          'are needed twice and nothing was rejected'))
        elif impl['error'] != 'ValueError':
            fails.append(('no_overwrite', f"path collision reported as {impl['error']}: {impl.get('error_msg')}"))
        elif impl['files']:
            fails.append(('bad_title_writes_nothing', f"rejected, but files were written first: {impl['files'][:6]}"))
        return fails
    if impl['error'] is not None:
        if dup_siblings:
            return fails   # an explicit rejection of equally titled siblings is acceptable
        if has_bad_figure(case):
            run.count('reject:figure')
            return fails   # a figure that cannot be drawn: the writing fails loudly
        fails.append(('pages_bijective', f"valid tree rejected: {impl['error']}: {impl.get('error_msg')}"))
        return fails
    run.count('written')
    got_pages = {p['path']: p for p in impl['pages']}
    if sorted(got_pages) != sorted(set(paths)):
        fails.append(('pages_bijective', f'pages {sorted(got_pages)} != sections {sorted(set(paths))}'))
    all_anchors = [a for p in impl['pages'] for a in p['anchors']]
    if sorted(map(str, all_anchors)) != sorted(str(r[0]) for r in results):
        fails.append(('result_exactly_once', f'anchors {sorted(map(str, all_anchors))} != results {sorted(r[0] for r in results)}'))
    by_path = {}
    for c, node in secs:
        by_path.setdefault('/'.join(c) if c else 'index', []).extend(it['res'][0] for it in node['items'] if 'res' in it)
    for path, ids in by_path.items():
        if path in got_pages and sorted(map(str, got_pages[path]['anchors'])) != sorted(map(str, ids)):
            fails.append(('result_exactly_once', f"page {path}: anchors {got_pages[path]['anchors']} != results of the section {ids}"))
    for page in impl['pages']:
        for target in page['toc']:
            if target not in got_pages:
                fails.append(('toc_targets_written', f"page {page['path']} lists {target!r}, which was not written"))
        for img in page['images']:
            if f'figures/plot_{img}.png' not in impl['files']:
                fails.append(('figures_written', f"page {page['path']} references plot {img}, file missing"))
    # every subsection is listed in its parent's table of contents
    kids_by_path = {}
    for c, node in secs:
        kids_by_path.setdefault('/'.join(c) if c else 'index', set()).update(
            '/'.join(c + (it['sec']['title'],)) for it in node['items'] if 'sec' in it)
    for path, kids in kids_by_path.items():
        if path in got_pages and sorted(set(got_pages[path]['toc'])) != sorted(kids):
            fails.append(('toc_targets_written', f"page {path}: toc {got_pages[path]['toc']} != subsections {sorted(kids)}"))
    return fails[:6]


def nontrivial(case, impl):
    return case if impl.get('_nontrivial') else None


def signature(case, clause, detail):
    return clause
