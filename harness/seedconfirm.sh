#!/bin/sh
# usage: harness/seedconfirm.sh <dir with patch.diff demo.py> | --baseline
# Confirms a seeded change: demo passes on the clean tree, fails with the change, the full test suite
# gives the same failures as on the clean tree (baseline list in /tmp/mut/clean_failed.txt, made by --baseline).
N="seedconf.$$"
S="/tmp/$N"
mkdir -p "$S"
git -C /repo archive HEAD | tar -x -C "$S"
cd "$S" && git init -q .
suite() { PYTHONPATH="$S" /venv/bin/python -m pytest -q -p no:cacheprovider --timeout=900 --continue-on-collection-errors 2>/dev/null | grep -E "^(FAILED|ERROR) [A-Za-z0-9_/]+\.py" | sed 's/ - .*//' | sort; }
if [ "$1" = "--baseline" ]; then
  mkdir -p /tmp/mut; suite > /tmp/mut/clean_failed.txt; wc -l /tmp/mut/clean_failed.txt
else
  D="$(realpath "$1")"
  PYTHONPATH="$S" /venv/bin/python "$D/demo.py" >/dev/null 2>&1; CLEAN=$?
  git apply "$D/patch.diff" || echo "patch does not apply"
  PYTHONPATH="$S" /venv/bin/python "$D/demo.py" >"$S/demo.out" 2>&1; MUT=$?
  suite > "$S/failed.txt"
  NEW=$(comm -23 "$S/failed.txt" /tmp/mut/clean_failed.txt | tr '\n' ' ')
  echo "demo_clean_exit=$CLEAN demo_mutant_exit=$MUT new_test_failures=[$NEW] demo_msg=$(tail -1 "$S/demo.out" | cut -c1-200)"
fi
cd /tmp && rm -rf "/tmp/$N"
