#!/usr/bin/env python3
"""Keep a confirmed seeded change: harness/seedkeep.py Cxx K  (reads /tmp/mut/out_Cxx/K and /tmp/mut/confirm_Cxx_K.txt)."""
import json
import os
import re
import shutil
import subprocess
import sys

VERIF = os.path.dirname(os.path.dirname(os.path.abspath(__file__)))
prop, k = sys.argv[1], sys.argv[2]
src = f'/tmp/mut/out_{prop}/{k}'
dst = os.path.join(VERIF, 'seeded', f'{prop}-{k}')
os.makedirs(dst, exist_ok=True)
for name in ('patch.diff', 'demo.py', 'notes.md'):
    shutil.copy(os.path.join(src, name), os.path.join(dst, name))
confirm = open(f'/tmp/mut/confirm_{prop}_{k}.txt').read().strip()
out = subprocess.run([os.path.join(VERIF, 'harness', 'seedtest.sh'), prop, os.path.join(dst, 'patch.diff')],
                     stdout=subprocess.PIPE, stderr=subprocess.STDOUT, text=True).stdout
vline = next((l for l in out.splitlines() if l.startswith('VIOLATION')), None)
clause = detail = None
if vline:
    m = re.search(r'replay=(\S+)', vline)
    try:
        rep = json.load(open(os.path.join(VERIF, m.group(1))))
        clause = rep.get('oracle_clause') or rep.get('broken')
        detail = str(rep.get('detail') or rep.get('diff'))[:300]
    except Exception:  # pylint: disable=broad-except
        pass
notes = open(os.path.join(src, 'notes.md')).read()
meta = {
    'property': prop,
    'source': 'independent sub-agent given only the property text and a scratch worktree',
    'needs_to_manifest': ' '.join(notes.split('\n\n')[1].split())[:600] if '\n\n' in notes else notes[:600],
    'confirmed': {
        'how': 'harness/seedconfirm.sh: demo.py on a clean scratch copy of /repo HEAD (exit 0), git apply patch.diff, '
               'demo.py again (non-zero), full pytest suite compared with the failures of the clean scratch copy',
        'result': confirm},
    'detected': bool(vline),
    'detected_by': {'check': f'./check {prop} --tier quick (harness/seedtest.sh {prop} seeded/{prop}-{k}/patch.diff)',
                    'violation_line': vline, 'oracle_clause': clause, 'detail': detail},
}
json.dump(meta, open(os.path.join(dst, 'meta.json'), 'w'), indent=1)
print(prop, k, 'detected' if vline else 'MISSED', clause)
