#!/bin/sh
# usage: harness/seedtest.sh Cxx path/to/patch.diff [tier]   -- run a check against a scratch copy of /repo with a seeded change
set -e
P="$1"; PATCH="$(realpath "$2")"; TIER="${3:-quick}"
HERE="$(cd "$(dirname "$0")/.." && pwd)"
S="$(mktemp -d /tmp/seedrepo.XXXXXX)"
git -C /repo archive HEAD | tar -x -C "$S"
(cd "$S" && git init -q . && git apply "$PATCH")
cd "$HERE"
set +e
VERIF_REPO="$S" VERIF_EVIDENCE_DIR="$S/evidence" ./check "$P" --tier "$TIER" 2>&1 | tail -4
RC=$?
rm -rf "$S"
exit $RC
